import os, sys, tarfile, hashlib, json, glob
out = sys.argv[1]
os.makedirs(out, exist_ok=True)
n=0
for crate in sorted(glob.glob(os.path.expanduser('~/.cargo/registry/cache/*/*.crate'))):
    base = os.path.basename(crate)[:-6]
    dst = os.path.join(out, base)
    if os.path.exists(dst): continue
    h = hashlib.sha256(open(crate,'rb').read()).hexdigest()
    with tarfile.open(crate, 'r:gz') as t:
        t.extractall(out)
    with open(os.path.join(dst, '.cargo-checksum.json'), 'w') as f:
        json.dump({"files": {}, "package": h}, f)
    n+=1
print("vendored", n)

#!/usr/bin/env bash
# usage: try_mutant.sh <patch.diff> [--tests] <ID>...
# Applies the patch to /repo, runs the quick checks, always reverts.
set -u
patch="$(realpath "$1")"; shift
tests=0
if [ "${1:-}" = "--tests" ]; then tests=1; shift; fi
cd /repo
if [ -n "$(git status --porcelain --untracked-files=no)" ]; then echo "/repo is dirty; refusing"; exit 3; fi
git apply "$patch" || { echo "patch does not apply"; exit 3; }
trap 'git -C /repo checkout -- . ; git -C /repo clean -fdq -- fastrace fastrace-macro fastrace-futures fastrace-jaeger fastrace-datadog fastrace-opentelemetry >/dev/null 2>&1' EXIT
if [ $tests = 1 ]; then
  (cd /repo && cargo test --workspace --no-fail-fast --offline 2>&1 | grep -E "^test result|FAILED|panicked" | sort | uniq -c | head -20)
fi
for id in "$@"; do
  out=$(cd /verif && ./check "$id" 2>/tmp/try_mutant.err); rc=$?
  echo "== $id exit=$rc $(echo "$out" | grep -c VIOLATION) violation line(s)"
  echo "$out" | grep -E "VIOLATION|KNOWN" | head -3
  grep -E "signature|^  " /tmp/try_mutant.err | head -4
done

#!/usr/bin/env bash
# sweep.sh "<ids>" "<seeds>" [tier]: run checks for several seeds; print one line per run
cd "$(dirname "$0")/.."
tier=${3:-quick}
for s in $2; do for id in $1; do
  out=$(VERIF_SEED=$s ./check $id --tier $tier 2>&1); rc=$?
  echo "seed=$s $id exit=$rc $(echo "$out" | grep -E 'held on|VIOLATION|INCONCLUSIVE|signature' | head -3 | tr '\n' ' ' | cut -c1-300)"
done; done

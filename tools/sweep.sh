#!/usr/bin/env bash
# sweep.sh "<ids>" "<seeds>" [tier]: run checks for several seeds; print one line per run
cd "$(dirname "$0")/.."
# under `vp run --with-repo` work against the snapshot of /repo (so that /repo itself can be
# patched with seeded changes meanwhile): rewrite the path dependencies of this snapshot of /verif
if [ -n "${VP_RUN_REPO:-}" ] && [ "$(pwd)" != "/verif" ]; then
  grep -rl '"/repo/' engines/*/Cargo.toml fuzz/Cargo.toml | xargs sed -i "s#\"/repo/#\"$VP_RUN_REPO/#g"
  export VERIF_REPO="$VP_RUN_REPO"
fi
tier=${3:-quick}
for s in $2; do for id in $1; do
  out=$(VERIF_SEED=$s ./check $id --tier $tier 2>&1); rc=$?
  echo "seed=$s $id exit=$rc $(echo "$out" | grep -E 'held on|VIOLATION|INCONCLUSIVE|signature' | head -3 | tr '\n' ' ' | cut -c1-300)"
done; done

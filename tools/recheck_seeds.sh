#!/usr/bin/env bash
# recheck_seeds.sh <regex>: runs every adopted seed whose directory matches seeded/(<regex>)-* (e.g. 'C..e' or 'C03c|C09c') against the
# quick check of its own property (patch applied to /repo, reverted afterwards) and records the outcome in meta.json
set -u
re=${1:-.}
for d in /verif/seeded/C[0-9][0-9]*; do
  b=$(basename $d); id=${b:0:3}
  echo "$b" | grep -Eq "^(${re})-" || continue
  [ -f $d/patch.diff ] || continue
  res=$(/verif/tools/try_mutant.sh $d/patch.diff $id 2>&1 | grep -E "^==|signature|does not apply|refusing" | head -4)
  echo "$b :: $(echo "$res" | tr '\n' ' ' | cut -c1-200)"
  python3 - "$d" "$id" <<PY
import json,sys
d,id=sys.argv[1:3]
m=json.load(open(d+"/meta.json"))
res='''$res'''.splitlines()
m.setdefault("rechecks",[]).append({"command":f"tools/try_mutant.sh {d}/patch.diff {id}","verif_commit":"$(git -C /verif rev-parse --short HEAD)","result":res})
m["detected_by_own_check"]=any("exit=1" in l for l in res)
json.dump(m,open(d+"/meta.json","w"),indent=1)
PY
done

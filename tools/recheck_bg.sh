#!/usr/bin/env bash
# recheck_bg.sh <regex>: like recheck_seeds.sh but for `vp run --with-repo`: works on the snapshot of /repo
# ($VP_RUN_REPO) and this snapshot of /verif, so /repo itself stays free. Prints one line per seed; records nothing.
cd "$(dirname "$0")/.."
[ -n "${VP_RUN_REPO:-}" ] || { echo "needs vp run --with-repo"; exit 2; }
grep -rl '"/repo/' engines/*/Cargo.toml fuzz/Cargo.toml | xargs sed -i "s#\"/repo/#\"$VP_RUN_REPO/#g"
export VERIF_REPO="$VP_RUN_REPO"
re=${1:-.}
for d in /verif/seeded/C[0-9][0-9]*; do
  b=$(basename $d); id=${b:0:3}
  echo "$b" | grep -Eq "^(${re})-" || continue
  [ -f $d/patch.diff ] || continue
  git -C $VP_RUN_REPO apply $d/patch.diff 2>/dev/null || { echo "$b :: patch does not apply"; continue; }
  out=$(./check $id 2>&1); rc=$?
  git -C $VP_RUN_REPO checkout -- . ; git -C $VP_RUN_REPO clean -fdq
  echo "$b :: $id exit=$rc $(echo "$out" | grep -E 'signature|INCONCLUSIVE' | head -2 | tr '\n' ' ' | cut -c1-160)"
done

#!/usr/bin/env bash
# adopt_seed.sh <ID> <name> <demo-basename> "<checks to run>": confirm a sub-agent's seeded change, run the
# checks against it (applied to /repo, reverted afterwards), store everything under /verif/seeded/<ID>-<name>/
set -u
id=$1; name=$2; demo=$3; checks=$4
out=/tmp/wt/out-$id; dst=/verif/seeded/$id-$name
mkdir -p $dst
conf=$(/verif/tools/confirm_seed.sh $id $demo 2>&1 | tail -25)
echo "$conf"
cp $out/patch.diff $dst/patch.diff; cp $out/$demo.rs $dst/ 2>/dev/null; cp $out/meta.json $dst/agent_meta.json 2>/dev/null
res=$(/verif/tools/try_mutant.sh $dst/patch.diff $checks 2>&1)
echo "$res" | grep -E "^==|signature|^  " | head -20
python3 - "$id" "$name" "$demo" "$checks" <<PY
import json,sys,subprocess
id,name,demo,checks=sys.argv[1:5]
dst=f"/verif/seeded/{id}-{name}"
conf='''$conf'''
res='''$(echo "$res" | grep -E "^==|signature" | head -20)'''
try: am=json.load(open(dst+"/agent_meta.json"))
except Exception: am={}
meta={"property":id,"name":name,"breaks":am.get("summary",""),"needs_to_manifest":am.get("needs_to_manifest",""),
 "base_commit":subprocess.check_output(["git","-C","/repo","rev-parse","--short","HEAD"]).decode().strip(),
 "confirmed_by_me":{"command":f"tools/confirm_seed.sh {id} {demo}","output":conf.splitlines()},
 "checks_run":{"command":f"tools/try_mutant.sh seeded/{id}-{name}/patch.diff {checks}","result":res.splitlines()},
 "demo":f"{demo}.rs (copy to ${DEMO_DIR:-fastrace}/tests/ and run: cd ${DEMO_DIR:-fastrace} && cargo test --test {demo} --offline ${DEMO_ARGS:-})"}
json.dump(meta,open(dst+"/meta.json","w"),indent=1)
PY

#!/usr/bin/env python3
"""Regenerates /verif/MANIFEST.json from the table below (keeps it valid and in one place)."""
import json

ALL = ["C%02d" % i for i in range(1, 21)]

PBT = "property-based testing (proptest): "
CHECKS = {
    "C01": dict(engine="core(sched+api)", technique=PBT + "generated multi-threaded programs + generated schedules at hook-site granularity (stateful model-based, baton scheduler); oracle: exactly-once multiset equality with the reference model and delivery deadlines per cycle/flush; plus ring-fill episodes in the default configuration (a record may be missing only if its own submit was pushed inside an overload window), pools of 33-40 registered threads, queue registration at the first command with a true-waiter model of the registry lock, a constructed overlap of two real flush() calls (reporter parks the first one), a free-running no-flush sub-check against the real background collector, 2-32 brand-new OS threads released at the same instant whose spans one later flush() must report and, in the thorough tier, a coverage-guided libFuzzer campaign over (program, schedule) bytes with the same oracles",
                text="Exploration: 30k hooked-scheduler cases + 18k public-API cases per quick run (x20 in the thorough tier), each compared with a reference model (exactly once, nothing invented, delivered by the first complete cycle / by flush()). Schedules are sampled at push/drain/empty-pop granularity, so cross-thread drain races and thread-exit races are reached deterministically; absence is not established.",
                note="Trusts the baton scheduler (one vthread at a time), the hook sites as the only relevant interleaving points (rtrb treated as a linearizable queue), and the harness's sink reporter. The free-running background thread's latency ('about one interval') is not decided here."),
    "C02": dict(engine="core(api)", technique=PBT + "generated span-tree programs (attachment closures that trace themselves included); oracle: delivered (trace id, parent id) multiset per span name equals the reference model's tree, ids non-zero and distinct",
                text="Exploration: 72k generated programs per quick run in both collector configurations (640k thorough); every delivered record is matched by unique name to a model span and its trace/parent ids are compared with the model tree.",
                note="Parent ids are resolved through the parent's delivered record (fallback: id reported by from_span). Id collisions of probability 2^-32 are not reachable."),
    "C03": dict(engine="core(sched+api)", technique=PBT + "generated programs + schedules in cancelable mode; oracle: one report() batch per trace containing root and must-set (spans finished before the root by baton happens-before); plus overlapping real flush() calls with cancelable(true) (every trace whole once its root finished); thorough tier adds the libFuzzer (program, schedule) campaign",
                text="Exploration: 45k scheduled + 27k API cases per quick run; batch structure of every trace checked against must/may sets derived from real happens-before. The known inconsistent-cut finding is recognised by an exact structural predicate and everything else is still checked.",
                note="Same trusted base as C01. Known findings are listed in known_findings.json and matched by exact signature."),
    "C04": dict(engine="core(sched+api)", technique=PBT + "generated cancel histories incl. ring-full fault injection; oracle: no record of a cancelled trace in any batch, other traces as C03, no-op cancels metamorphic (delivery as if absent); plus constructed sub-cases with the real flush(): overlapping flush() calls with cancelable(true), and a thread with a completely full queue that cancels and calls flush() itself",
                text="Exploration: 36k scheduled (both configs, with queue-fill episodes) + 27k API cases per quick run.",
                note="Same trusted base as C01; ring capacity fixed at the compiled-in 10240."),
    "C05": dict(engine="core(api)", technique=PBT + "generated programs mixing sampled/unsampled roots; oracle: nothing carrying an unsampled item is delivered, mixed-parent spans/scopes delivered exactly in sampled parents' traces, extracted contexts carry the flag",
                text="Exploration: 72k programs per quick run, both configurations (640k thorough).",
                note="Matching by unique generated names/keys."),
    "C06": dict(engine="core(api)", technique=PBT + "generated attachment programs with arbitrary Unicode; oracle: each attachment exactly once on its target record(s), nowhere else, values byte-identical, per-route order preserved",
                text="Exploration: 72k programs per quick run, both configurations, flush() cycles at any operation boundary between attachment and finish.",
                note="Must/may classification follows the property's own precondition. Shapes of the known dup-unit finding are excluded by construction and counted."),
    "C07": dict(engine="core(api+sched)", technique=PBT + "generated API call sequences in every listed state (no reporter, no-op/unsampled/empty parents, re-entrant closures, full queue, exceeded limits, thread-local teardown), incl. calls made while the thread unwinds from an unrelated panic, lazy argument iterators and the text decoders on near-valid headers, plus the real background collector with a reporter that uses the tracing API inside report() followed by a flush() that has to return, and a reporter that panics on the background thread followed by generated host calls (flush, set_reporter, spans) that have to return; oracle: every call returns (catch_unwind per call; process abort = violation; an operation that needed another vthread deadlocks the scheduler; flush() back within 8 s)",
                text="Exploration: ~19k in-process sequences (incl. re-entrant mini programs inside property/event closures), 4.8k sequences without a reporter, 4.8k scheduled sequences with ring-fill episodes, limit bursts and 1200 thread-local-teardown cases on fresh OS threads per quick run.",
                note="Debug assertions are ON in the harness profile (as in the repository's own dev-profile suite). Blocking is detected only as scheduler deadlock / watchdog expiry."),
    "C08": dict(engine="core(sched)", technique=PBT + "generated trace/thread histories + schedules; oracle: collector_stats() zero at quiescence and bounded by in-flight traces/live threads at every idle point; plus constructed overlapping real flush() calls (traces alive across the parked cycle) with the counters read afterwards, and thread-local teardown cases (a user thread-local's destructor issues generated tracing calls and drops stashed spans; counters compared before/after each case)",
                text="Exploration: 72k scheduled histories per quick run in both configurations, stats sampled after every cycle.",
                note="Only the four counters exposed by the verification hook are observed."),
    "C09": dict(engine="core(sched+api)", level="fault_enumeration", technique=PBT + "fault injection: generated ring-fill episodes and scope-limit bursts (scopes with open local spans filled to the limit, local operations continuing while full) inside generated programs and schedules; oracle: missing subset of permitted (submits logged as dropped with free==0), delivered records correct, per-ring order of commit/drop commands issued == received, recovery complete",
                text="Fault enumeration by generation: ~18k scheduled cases with ring-fill episodes (0-3 slots left) plus ~900 scope/nesting-limit bursts per quick run; every full-queue push and its outcome is observed through the hooks and the oracle admits only those omissions.",
                note="Ring capacity, scope capacity and nesting limit are the compiled-in constants. Hook log (command issued / pushed / received per ring) is trusted."),
    "C10": dict(engine="core(api)", technique=PBT + "generated well-nested scope sequences with context probes; oracle: metamorphic frame condition (observation after close == before open, same context version => same observation, probe events through both local-event entry points), the content of every collected LocalCollector scope (its spans and the events added while one of them was open) and inertness without scope",
                text="Exploration: 72k programs per quick run.",
                note="The observation is current_local_parent(), the parent of a probe span and the record a probe event lands on."),
    "C11": dict(engine="core(api)", technique=PBT + "generated extraction points; oracle: returned (trace, span, sampled) equals the model's span, matched to the delivered record by name; remote children delivered under it, every returned context survives the traceparent round trip; also inside scopes filled to the per-scope limit",
                text="Exploration: 72k programs per quick run, both configurations (640k thorough).",
                note="The shape of a known panic (C07) is excluded by construction and counted."),
    "C12": dict(engine="codec(+libFuzzer)", technique=PBT + "generated contexts (boundary classes) and near-valid traceparent strings (22 mutation kinds) + coverage-guided libFuzzer target with the same oracle; oracle: round trip, fixed output form, differential against an independent reference parser, no panic; 1 % of the contexts are round-tripped from thread-local destructors of a fresh thread",
                text="Exploration: 3.2M generated cases per quick run; thorough adds 22M cases and a 3 min libFuzzer campaign (oracle inside the target).",
                note="The reference parser implements only the property's sentence; inputs that are valid hex but not canonical are only required to decode to the denoted values when accepted."),
    "C13": dict(engine="core(api+sched)", technique=PBT + "scripted inner futures whose per-poll actions are generated, wrapped by in_span/enter_on_poll and driven by generated poll/drop operations from generated vthreads (a call may end in a deliberate panic of the inner object, caught by the caller); oracle: local parent inside each poll, frame condition after it, span delivered exactly at completion/drop (cycle deadline + monotonic bracket), final poll's recordings in the delivered trace, one enter_on_poll span per poll; plus a free-running sub-check (real background collector, in_span futures created on one thread and completed on a fresh thread as its first tracing activity, nobody calls flush())",
                text="Exploration: 27k API cases (real flush() cycles) and 17k scheduled cases (collector steps inside the completing poll) per quick run, both configurations.",
                note="The inner future is the harness's scripted object; executors, wakers and real I/O are out of scope. Same trusted base as C01 for the scheduled part."),
    "C14": dict(engine="core(api+sched)", technique=PBT + "scripted inner streams/sinks wrapped by fastrace_futures::in_span with generated call sequences over the five entry points (a call may end in a deliberate panic of the inner object); oracle as C13 per entry point, and delivery of a finished, never cancelled bound root in both configurations",
                text="Exploration: 27k API cases and 17k scheduled cases per quick run, both configurations.",
                note="For poll_close -> Ready(Err) only exactly-once delivery and 'not before that call' are asserted."),
    "C16": dict(engine="core(disabled+api)", technique=PBT + "the same generated programs compiled against fastrace without the enable feature, and with it for non-recording spans, plus the phase before any reporter is installed with real parallelism (1-4 threads creating roots while 0-2 call flush(); then a reporter is installed and nothing of the phase may arrive); oracle: invocation counters in every closure, zero report() calls, no threads, None contexts/elapsed, empty conversions",
                text="Exploration: 18k programs against the disabled build and 18k against the enabled build (no-op derived spans, no local parent) per quick run.",
                note="Thread check reads /proc/self/task of the worker process."),
    "C17": dict(engine="core(api)", technique=PBT + "generated local-span forests pushed to N parents and converted; oracle: copies identical up to trace/root parent, to_span_records equals a pushed copy, open spans end inside the collect() bracket, entries captured at the top level of a collector scope arrive on the span the set is pushed to (narrow must-rule)",
                text="Exploration: 72k programs per quick run, both configurations (640k thorough).",
                note="Durations compared exactly within a batch, +-2ns across batches; brackets read the library's own monotonic clock (fastant)."),
    "C18": dict(engine="core(api+sched)", technique=PBT + "generated programs with busy-wait spins, at operation granularity and under the hooked scheduler (spans stamped while a collector cycle is between two queues); oracle: durations inside harness-side monotonic brackets, begin times inside the run's wall-clock window, exact nesting of local spans and events",
                text="Exploration: 24k programs per quick run, both configurations (640k thorough).",
                note="Brackets use fastant::Instant (the library's clock); wall-clock window +-50ms."),
}

CHECKS["C19"] = dict(engine="reporters", technique=PBT + "generated SpanRecord batches (records sharing a few interleaved traces, keys/values that a backend gives a meaning of its own) through the real reporters to loopback sockets (the Datadog agent on the IPv4 or the IPv6 loopback address) / a capturing exporter, decoded by hand-written Thrift-compact and msgpack decoders; oracle: well-formedness (complete parse, no trailing bytes) and record-by-record faithfulness per target format",
    text="Exploration: 1.8k Jaeger batches, 2k OpenTelemetry batches, 360 Datadog batches (one HTTP request each) per quick run, 0-400 records each.",
    note="Decoders are written from the wire-format specifications and jaeger.thrift / the v0.4 key set; a real agent's acceptance is not tested. A kernel-side datagram drop makes a case inconclusive, never a violation.")
CHECKS["C20"] = dict(engine="reporters(+libFuzzer)", technique=PBT + "generated size plans (tiny/medium/near-limit/oversize spans, totals straddling 8000 bytes, records spread over 1-4 interleaved traces, repeated span ids) realised with an independent reference Thrift encoder + libFuzzer target decoding bytes into size plans; oracle: every datagram < 8000 bytes, transmitted spans == exactly the records that fit alone, once and in order, call terminates",
    text="Exploration: 12.6k batches per quick run; thorough adds 420k batches and a 5 min libFuzzer campaign through the real UDP path.",
    note="The reference encoder is validated against the real single-span datagrams on every single-record case; sizes within +-10 bytes of the limit are undecided.")

CHECKS["C15"] = dict(engine="macrogen+macro_case", technique=PBT + "GENERATED RUST SOURCE: twin functions (annotated / plain, identical bodies; a quarter with parameter names an expansion could capture) from a signature+body grammar compiled against /repo/fastrace-macro, then differential execution with generated arguments and tracing contexts; oracle: equal return value / panic payload / side-effect log / &mut arguments, exactly one span per call (per poll with enter_on_poll) with name from the plain twin's func_path!(), properties equal to the same format strings evaluated by the harness, parent = caller's local parent, nested traced calls as a tree",
    text="Exploration: one batch of 150 generated function pairs (12 signature shapes) and 84k generated calls per quick run; thorough: 700 pairs and 560k calls.",
    note="Shapes the grammar does not produce (const generics, unsafe, extern, impl Trait returns) are not covered; async-trait methods are generated with name/short_name only; argument drop order is not compared (unclaimed). Compile-time diagnostics stay with the repository's ui tests.")

NOT_YET = "check not built yet (work in progress; see DESIGN.md section 4 for the planned check)"


def main():
    checks = []
    for pid in ALL:
        if pid not in CHECKS:
            continue
        c = CHECKS[pid]
        checks.append({
            "property_id": pid,
            "quick_cmd": f"./check {pid} --tier quick",
            "thorough_cmd": f"./check {pid} --tier thorough",
            "evidence_file": f"/verif/evidence/{pid}.json",
            "replay_cmd_template": f"./check {pid} --replay {{path}}",
            "engine": c["engine"],
            "level_claimed": {"category": c.get("level", "exploration"), "text": c["text"], "design_ref": f"DESIGN.md section 4, {pid}"},
            "level_note": c["note"],
            "technique": c["technique"],
        })
    m = {
        "version": 1,
        "setup_cmd": "bash /verif/setup.sh",
        "hooks": {
            "guard": "fastrace_verif",
            "enable": "RUSTFLAGS=\"--cfg fastrace_verif\" (set by /verif/check for the hooked target directory /verif/target/hooked)",
            "baseline_off_cmd": "cd /repo && cargo test --workspace --no-fail-fast --offline",
            "source_commits": ["4df235e", "cfeb20b", "02efe50"],
            "add_only": True,
        },
        "engines": [
            {"name": "core", "path": "/verif/engines/core", "serves_properties": [p for p in ALL if p in CHECKS and CHECKS[p]["engine"].startswith("core")],
             "kind_free_text": "proptest-driven interpreter of generated tracing programs with a lockstep reference model; built plain (public API, real flush()), hooked (--cfg fastrace_verif: baton scheduler over hook sites) and without the enable feature"},
            {"name": "reporters", "path": "/verif/engines/reporters", "serves_properties": ["C19", "C20"], "kind_free_text": "proptest worker + cargo-fuzz target /verif/fuzz/fuzz_targets/c20_plan.rs; loopback UDP/HTTP harness, independent decoders and reference encoder"},
            {"name": "macrogen+macro_case", "path": "/verif/engines/macrogen", "serves_properties": ["C15"], "kind_free_text": "fr-macrogen renders generated FnSpecs into /verif/engines/macro_case/src/generated.rs (git-ignored); macro_case is compiled against /repo and runs the differential harness"},
            {"name": "codec", "path": "/verif/engines/codec", "serves_properties": ["C12"], "kind_free_text": "proptest worker + cargo-fuzz target /verif/fuzz/fuzz_targets/c12_text.rs sharing one oracle library"},
        ],
        "checks": checks,
        "notes": "All checks are generated-input searches (proptest; libFuzzer where inputs are byte strings). Known findings: /verif/known_findings.json. Seeds: VERIF_SEED. See DESIGN.md.",
        "not_applicable": [{"property_id": p, "reason": NOT_YET} for p in ALL if p not in CHECKS],
    }
    json.dump(m, open("/verif/MANIFEST.json", "w"), indent=1)


main()

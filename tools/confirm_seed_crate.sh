#!/usr/bin/env bash
# confirm_seed_crate.sh <ID> "<demo command run inside /tmp/wt/out-<ID>/demo>": for demos shipped as their own crate
set -u
id=$1; cmd=$2; wt=/tmp/wt/$id; out=/tmp/wt/out-$id
cd $wt || exit 3
git checkout -q -- . ; git clean -fdq
git apply $out/patch.diff || { echo "PATCH DOES NOT APPLY"; exit 3; }
echo "== with change: demo"
(cd $out/demo && CARGO_TARGET_DIR=$out/demo/target timeout 600 bash -c "$cmd" 2>&1 | grep -vi conda | grep -E "test result|FAILED|FAIL|PASS|panicked|exit|error(\[|:)|ok$" | head -12; echo "demo exit status: ${PIPESTATUS[0]}")
echo "== without change: demo"
git apply -R $out/patch.diff
(cd $out/demo && CARGO_TARGET_DIR=$out/demo/target timeout 600 bash -c "$cmd" 2>&1 | grep -vi conda | grep -E "test result|FAILED|FAIL|PASS|panicked|exit|error(\[|:)|ok$" | head -12; echo "demo exit status: ${PIPESTATUS[0]}")
echo "== with change: repository suite"
git apply $out/patch.diff
cargo test --workspace --no-fail-fast --offline 2>&1 | grep -E "^test result" | awk '{p+=$4; f+=$6} END {print "passed",p,"failed",f}'
rm -rf $out/demo/target

#!/usr/bin/env bash
# confirm_seed.sh <ID> [demo test name]: confirm a sub-agent's seeded change in its scratch worktree:
#  (1) demo fails with the change, (2) demo passes without it, (3) the repository's suite passes with it.
set -u
id=$1; wt=/tmp/wt/$id; out=/tmp/wt/out-$id; demo=${2:-seeded_demo}
# DEMO_DIR: crate directory the demo test belongs to (default fastrace); DEMO_ARGS: extra cargo test arguments
ddir=${DEMO_DIR:-fastrace}; dargs=${DEMO_ARGS:-}
cd $wt || exit 3
git checkout -q -- . ; git clean -fdq
git apply $out/patch.diff || { echo "PATCH DOES NOT APPLY"; exit 3; }
mkdir -p $ddir/tests; cp $out/$demo.rs $ddir/tests/$demo.rs 2>/dev/null || { echo "no demo file $out/$demo.rs"; ls $out; exit 3; }
echo "== with change: demo"
(cd $ddir && RUSTFLAGS="${DEMO_RUSTFLAGS:-}" cargo test --test $demo --offline $dargs ${DEMO_RUSTFLAGS:+--target-dir /tmp/wt/target-demo-$id} 2>&1 | grep -E "^test result|^test .*(FAILED|ok)$|error(\[|:)" | head -12)
echo "== without change: demo"
git apply -R $out/patch.diff
(cd $ddir && RUSTFLAGS="${DEMO_RUSTFLAGS:-}" cargo test --test $demo --offline $dargs ${DEMO_RUSTFLAGS:+--target-dir /tmp/wt/target-demo-$id} 2>&1 | grep -E "^test result|^test .*(FAILED|ok)$|error(\[|:)" | head -12)
echo "== with change: repository suite (demo removed)"
git apply $out/patch.diff; rm $ddir/tests/$demo.rs
cargo test --workspace --no-fail-fast --offline 2>&1 | grep -E "^test result" | awk '{p+=$4; f+=$6} END {print "passed",p,"failed",f}'

#!/usr/bin/env bash
# show.sh <ID> <replay.json>: replays a case and prints violations + narrative
cd /verif && ./check "$1" --replay "$2" 2>/dev/null | python3 -c "
import json,sys
txt=sys.stdin.read(); i=txt.rfind('VIOLATION'); 
r=json.loads(txt[:i] if i>=0 else txt); print(json.dumps(r['violations'],indent=1)); print('\n'.join(r['narrative']))" | cut -c1-260

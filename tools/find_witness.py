#!/usr/bin/env python3
"""find_witness.py <ID> <target> <variant> <cancelable> <signature> <outfile>: search a shrunk witness for a known-finding signature."""
import json, subprocess, sys, os
pid, target, variant, canc, sig, out = sys.argv[1:7]
kf = json.load(open('/verif/known_findings.json'))['findings']
others = [f['signature'] for f in kf if f['property'] == pid and f['status'] == 'known' and f['signature'] != sig]
binp = f'/verif/target/{target}/release/fr-core'
for seed in range(1, 200):
    tmp = f'/verif/work/witness-{pid}.json'
    subprocess.run([binp, 'worker', '--prop', pid, '--variant', variant, '--seed', str(seed), '--cases', '3000', '--out', tmp, '--cancelable', canc, '--known', '||'.join(others)], check=True)
    r = json.load(open(tmp))
    f = r.get('failure')
    if f and f.get('signature') == sig:
        body = {"property": pid, "variant": variant, "target": target, "program": f['program'], "seed": seed, "expect": "known:" + sig, "verdict": f['violations']}
        json.dump(body, open(out, 'w'), indent=1)
        print("witness saved", out, "ops", sum(len(t) for t in f['program']['threads']))
        sys.exit(0)
    elif f:
        print("seed", seed, "other failure", f.get('signature'))
print("no witness found"); sys.exit(1)

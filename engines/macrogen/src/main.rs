//! C15: generator of Rust SOURCE. The macro's input is Rust source, so the generated input is
//! Rust source: twin functions (annotated with #[fastrace::trace(..)] / plain) with identical
//! bodies, one driver per pair, rendered into one file that the macro_case crate compiles.

use proptest::prelude::*;
use proptest::strategy::ValueTree;
use proptest::test_runner::{Config, RngAlgorithm, TestRng, TestRunner};
use serde::{Deserialize, Serialize};
use std::fmt::Write as _;

#[derive(Clone, Copy, Debug, Serialize, Deserialize, PartialEq)]
pub enum Kind {
    Free,
    MethodRef,
    MethodMut,
    MethodOwned,
    Generic,
    Lifetime,
    ImplTrait,
    AsyncFree,
    AsyncEop,
    AsyncMethod,
    AsyncTrait,
    /// hand-written `fn f(..) -> Pin<Box<dyn Future>> { prefix; Box::pin(async move { .. }) }`
    BoxPinTail,
    /// an `async fn` whose own body ends in `Box::pin(async move { .. })`: an async factory that
    /// returns a boxed future; the call (and its span) ends when the factory returns
    AsyncBoxPin,
}

#[derive(Clone, Copy, Debug, Serialize, Deserialize, PartialEq)]
pub enum ArgTy {
    I64,
    U8,
    Bool,
    Str,
    RefI64,
    MutI64,
    OptI64,
    /// `rt::TracedDbg`: its `Debug` impl uses the tracing API itself (enters a local span, adds an event)
    Traced,
}

#[derive(Clone, Copy, Debug, Serialize, Deserialize, PartialEq)]
pub enum Ret {
    I64,
    Res,
    Opt,
    Unit,
    Str,
}

#[derive(Clone, Debug, Serialize, Deserialize, PartialEq)]
pub enum Stmt {
    Log(u8),
    Arith(u8, u8),
    IfRet(u8),
    Loop { n: u8, early: bool, brk: u8 },
    Try(u8),
    Panic(u8),
    Guard(u8),
    Call(u16),
    MutArg(u8),
    Await(u8),
    Block(Vec<Stmt>),
}

#[derive(Clone, Debug, Serialize, Deserialize, PartialEq)]
pub struct Prop {
    pub key: String,
    /// 0 literal, 1 "{a:?}", 2 "x={a}", 3 escapes only "{{lit}}", 4 "{{{a}}}" mixed
    pub form: u8,
    pub arg: u8,
}

#[derive(Clone, Debug, Serialize, Deserialize, PartialEq)]
pub struct FnSpec {
    pub id: usize,
    pub kind: Kind,
    pub args: Vec<ArgTy>,
    pub ret: Ret,
    /// 0 default path, 1 name=..., 2 short_name
    pub naming: u8,
    pub name: String,
    pub props: Vec<Prop>,
    pub body: Vec<Stmt>,
    /// `enter_on_poll = true` on a future that is traced without the `async` keyword
    /// (async-trait method, hand-written `Box::pin` tail)
    #[serde(default)]
    pub eop: bool,
}

fn stmt(depth: u32, is_async: bool) -> BoxedStrategy<Stmt> {
    let mut v: Vec<(u32, BoxedStrategy<Stmt>)> = vec![
        (6, any::<u8>().prop_map(Stmt::Log).boxed()),
        (6, (0u8..4, any::<u8>()).prop_map(|(a, b)| Stmt::Arith(a, b)).boxed()),
        (3, (2u8..7).prop_map(Stmt::IfRet).boxed()),
        (2, (1u8..6, any::<bool>(), 2u8..9).prop_map(|(n, early, brk)| Stmt::Loop { n, early, brk }).boxed()),
        (3, (2u8..7).prop_map(Stmt::Try).boxed()),
        (2, (3u8..11).prop_map(Stmt::Panic).boxed()),
        (3, any::<u8>().prop_map(Stmt::Guard).boxed()),
        (3, any::<u16>().prop_map(Stmt::Call).boxed()),
        (2, any::<u8>().prop_map(Stmt::MutArg).boxed()),
    ];
    if is_async {
        v.push((5, (0u8..3).prop_map(Stmt::Await).boxed()));
    }
    if depth > 0 {
        v.push((2, proptest::collection::vec(stmt(depth - 1, is_async), 1..4).prop_map(Stmt::Block).boxed()));
    }
    proptest::strategy::Union::new_weighted(v).boxed()
}

fn spec() -> BoxedStrategy<FnSpec> {
    let kind = prop_oneof![
        4 => Just(Kind::Free),
        2 => Just(Kind::MethodRef),
        1 => Just(Kind::MethodMut),
        1 => Just(Kind::MethodOwned),
        2 => Just(Kind::Generic),
        1 => Just(Kind::Lifetime),
        1 => Just(Kind::ImplTrait),
        3 => Just(Kind::AsyncFree),
        2 => Just(Kind::AsyncEop),
        1 => Just(Kind::AsyncMethod),
        2 => Just(Kind::AsyncTrait),
        1 => Just(Kind::BoxPinTail),
        1 => Just(Kind::AsyncBoxPin),
    ];
    let argty = prop_oneof![
        3 => Just(ArgTy::I64),
        1 => Just(ArgTy::U8),
        1 => Just(ArgTy::Bool),
        2 => Just(ArgTy::Str),
        2 => Just(ArgTy::RefI64),
        2 => Just(ArgTy::MutI64),
        1 => Just(ArgTy::OptI64),
        2 => Just(ArgTy::Traced),
    ];
    let ret = prop_oneof![3 => Just(Ret::I64), 2 => Just(Ret::Res), 2 => Just(Ret::Opt), 1 => Just(Ret::Unit), 1 => Just(Ret::Str)];
    let key = prop_oneof![3 => "[a-z][a-z0-9_.]{0,8}", 1 => Just("ключ".to_string()), 1 => Just("k 😀".to_string()), 1 => Just("".to_string())];
    let prop = (key, 0u8..9, any::<u8>()).prop_map(|(key, form, arg)| Prop { key, form, arg });
    kind.prop_flat_map(move |k| {
        let is_async = matches!(k, Kind::AsyncFree | Kind::AsyncEop | Kind::AsyncMethod | Kind::AsyncTrait | Kind::BoxPinTail | Kind::AsyncBoxPin);
        (
            Just(k),
            proptest::collection::vec(argty.clone(), 0..4),
            ret.clone(),
            0u8..3,
            "[a-z][a-z -]{0,10}",
            proptest::collection::vec(prop.clone(), 0..4),
            proptest::collection::vec(stmt(2, is_async), 0..8),
        )
    })
    .prop_map(|(kind, args, ret, naming, name, mut props, body)| {
        // combinations the macro documents as rejected are not generated
        let mut naming = naming;
        let eop = matches!(kind, Kind::AsyncTrait | Kind::BoxPinTail) && name.len() % 3 == 0;
        if kind == Kind::AsyncEop || eop {
            props.clear(); // enter_on_poll cannot be used with properties
        }
        if matches!(kind, Kind::AsyncTrait | Kind::BoxPinTail) && naming == 0 {
            naming = 2; // default path name inside async-trait-like bodies is not pinned down by the docs
        }
        let mut args = args;
        let mut ret = ret;
        let mut body = body;
        if matches!(kind, Kind::BoxPinTail | Kind::AsyncBoxPin) {
            // the returned future must be 'static: by-value arguments only, no nested traced calls
            args.retain(|a| matches!(a, ArgTy::I64 | ArgTy::U8 | ArgTy::Bool | ArgTy::OptI64 | ArgTy::Traced));
            fn strip(b: &mut Vec<Stmt>) {
                b.retain(|s| !matches!(s, Stmt::Call(_)));
                for s in b.iter_mut() {
                    if let Stmt::Block(inner) = s {
                        strip(inner);
                    }
                }
            }
            if kind == Kind::BoxPinTail {
                strip(&mut body);
            } else if !body.iter().any(|s| matches!(s, Stmt::Call(_))) {
                // the future returned by an async factory runs after the factory's own call (and
                // span) ended: traced calls made in it belong to whoever polls it
                body.insert(0, Stmt::Call(name.len() as u16));
            }
            if ret == Ret::Unit {
                ret = Ret::I64;
            }
        }
        if matches!(kind, Kind::Generic | Kind::ImplTrait) {
            if args.is_empty() {
                args.push(ArgTy::I64);
            } else {
                args[0] = ArgTy::I64;
            }
        }
        // unique keys (duplicate keys are rejected by the macro)
        let mut seen = std::collections::HashSet::new();
        props.retain(|p| seen.insert(p.key.clone()));
        FnSpec { id: 0, kind, args, ret, naming, name, props, body, eop }
    })
    .boxed()
}

fn ty(t: ArgTy, lt: &str) -> String {
    match t {
        ArgTy::I64 => "i64".into(),
        ArgTy::U8 => "u8".into(),
        ArgTy::Bool => "bool".into(),
        ArgTy::Str => format!("&{}str", lt),
        ArgTy::RefI64 => format!("&{}i64", lt),
        ArgTy::MutI64 => "&mut i64".into(),
        ArgTy::OptI64 => "Option<i64>".into(),
        ArgTy::Traced => "rt::TracedDbg".into(),
    }
}

fn as_i64(t: ArgTy, name: &str) -> String {
    match t {
        ArgTy::I64 => name.to_string(),
        ArgTy::U8 => format!("({} as i64)", name),
        ArgTy::Bool => format!("({} as i64)", name),
        ArgTy::Str => format!("({}.len() as i64)", name),
        ArgTy::RefI64 => format!("(*{})", name),
        ArgTy::MutI64 => format!("(*{})", name),
        ArgTy::OptI64 => format!("{}.unwrap_or(-1)", name),
        ArgTy::Traced => format!("{}.0", name),
    }
}

fn ret_ty(s: &FnSpec) -> String {
    if s.kind == Kind::Lifetime {
        return " -> &'a str".into();
    }
    match s.ret {
        Ret::I64 => " -> i64".into(),
        Ret::Res => " -> Result<i64, String>".into(),
        Ret::Opt => " -> Option<i64>".into(),
        Ret::Unit => "".into(),
        Ret::Str => " -> String".into(),
    }
}

fn ret_expr(s: &FnSpec, early: bool) -> String {
    if s.kind == Kind::Lifetime {
        // returns a borrowed argument or a static
        return if let Some(i) = s.args.iter().position(|a| *a == ArgTy::Str) { an(s, i) } else { "\"static\"".into() };
    }
    let tag = if early { 1000 } else { 0 };
    match s.ret {
        Ret::I64 => format!("acc.wrapping_add({})", tag),
        Ret::Res => format!("Ok(acc.wrapping_add({}))", tag),
        Ret::Opt => format!("Some(acc.wrapping_add({}))", tag),
        Ret::Unit => "()".into(),
        Ret::Str => format!("format!(\"s{{}}\", acc.wrapping_add({}))", tag),
    }
}

fn render_body(s: &FnSpec, stmts: &[Stmt], out: &mut String, ind: usize, nfuncs_before: &[FnSpec], counter: &mut u32) {
    let pad = "    ".repeat(ind);
    for st in stmts {
        *counter += 1;
        let c = *counter;
        match st {
            Stmt::Log(k) => {
                let _ = writeln!(out, "{}rt::log(format!(\"f{}:{}:{{}}\", acc));", pad, s.id, k);
            }
            Stmt::Arith(a, b) => {
                let src = if s.args.is_empty() { format!("{}", b) } else {
                    let i = (*b as usize) % s.args.len();
                    if i == 0 && matches!(s.kind, Kind::Generic | Kind::ImplTrait) {
                        format!("Into::<i64>::into({}.clone())", an(s, 0))
                    } else {
                        as_i64(s.args[i], &an(s, i))
                    }
                };
                let e = match a {
                    0 => format!("acc = acc.wrapping_mul(3).wrapping_add({});", src),
                    1 => format!("acc = acc.wrapping_sub({}) ^ {};", src, b),
                    2 => format!("acc = acc.wrapping_add({}).rotate_left(3);", src),
                    _ => format!("acc = (acc ^ {}).wrapping_mul(7);", src),
                };
                let _ = writeln!(out, "{}{}", pad, e);
            }
            Stmt::IfRet(m) => {
                let _ = writeln!(out, "{}if acc.rem_euclid({}) == 0 {{ rt::log(format!(\"f{}:ret{}\")); return {}; }}", pad, m, s.id, c, ret_expr(s, true));
            }
            Stmt::Loop { n, early, brk } => {
                let _ = writeln!(out, "{}for i in 0..{}i64 {{", pad, n);
                let _ = writeln!(out, "{}    acc = acc.wrapping_add(i * 5 + 1);", pad);
                let _ = writeln!(out, "{}    let _lg = rt::DropLog::new(\"f{}.loop{}\");", pad, s.id, c);
                if *early {
                    let _ = writeln!(out, "{}    if acc.rem_euclid({}) == 1 {{ return {}; }}", pad, brk, ret_expr(s, true));
                } else {
                    let _ = writeln!(out, "{}    if acc.rem_euclid({}) == 1 {{ break; }}", pad, brk);
                }
                let _ = writeln!(out, "{}}}", pad);
            }
            Stmt::Try(m) => match (s.ret, s.kind) {
                (_, Kind::Lifetime) => {}
                (Ret::Res, _) => {
                    let _ = writeln!(out, "{}acc = acc.wrapping_add(rt::fallible(acc, {})?);", pad, m);
                }
                (Ret::Opt, _) => {
                    let _ = writeln!(out, "{}acc = acc.wrapping_add(rt::maybe(acc, {})?);", pad, m);
                }
                _ => {}
            },
            Stmt::Panic(m) => {
                let _ = writeln!(out, "{}if acc.rem_euclid({}) == 2 {{ panic!(\"p{}:{{}}\", acc); }}", pad, m, s.id);
            }
            Stmt::Guard(k) => {
                let _ = writeln!(out, "{}let _g{} = rt::DropLog::new(\"f{}.g{}\");", pad, c, s.id, k);
            }
            Stmt::Call(j) => {
                // call an earlier generated sync free function without formatted properties
                let cands: Vec<&FnSpec> = nfuncs_before.iter().filter(|f| f.kind == Kind::Free && f.props.iter().all(|p| p.form == 0 || p.form == 3 || p.form >= 5) && !f.args.iter().any(|a| *a == ArgTy::Str)).collect();
                if !cands.is_empty() {
                    let f = cands[(*j as usize) % cands.len()];
                    let mut pre = String::new();
                    let mut args = vec![];
                    for (i, a) in f.args.iter().enumerate() {
                        match a {
                            ArgTy::I64 => args.push(format!("acc.rem_euclid({})", 50 + i)),
                            ArgTy::U8 => args.push("(acc.rem_euclid(200)) as u8".into()),
                            ArgTy::Bool => args.push("acc.rem_euclid(2) == 0".into()),
                            ArgTy::Str => args.push("\"nested\"".into()),
                            ArgTy::RefI64 => args.push("&acc".into()),
                            ArgTy::MutI64 => {
                                let _ = writeln!(pre, "{}let mut t{}_{} = acc.rem_euclid(9);", pad, c, i);
                                args.push(format!("&mut t{}_{}", c, i));
                            }
                            ArgTy::OptI64 => args.push("Some(acc.rem_euclid(4))".into()),
                            ArgTy::Traced => args.push("rt::TracedDbg(acc.rem_euclid(9))".into()),
                        }
                    }
                    out.push_str(&pre);
                    let call = format!("f{}({})", f.id, args.join(", "));
                    let e = match f.ret {
                        Ret::I64 => format!("acc = acc.wrapping_add({});", call),
                        Ret::Res => format!("acc = acc.wrapping_add({}.unwrap_or(-7));", call),
                        Ret::Opt => format!("acc = acc.wrapping_add({}.unwrap_or(-9));", call),
                        Ret::Unit => format!("{};", call),
                        Ret::Str => format!("acc = acc.wrapping_add({}.len() as i64);", call),
                    };
                    let _ = writeln!(out, "{}{}", pad, e);
                }
            }
            Stmt::MutArg(k) => {
                let muts: Vec<usize> = s.args.iter().enumerate().filter(|(_, a)| **a == ArgTy::MutI64).map(|(i, _)| i).collect();
                if !muts.is_empty() {
                    let i = muts[(*k as usize) % muts.len()];
                    let _ = writeln!(out, "{}*{} = {}.wrapping_add(acc).wrapping_mul(3);", pad, an(s, i), an(s, i));
                }
            }
            Stmt::Await(k) => {
                let _ = writeln!(out, "{}rt::YieldK::new({}).await;", pad, k);
            }
            Stmt::Block(b) => {
                let _ = writeln!(out, "{}{{", pad);
                render_body(s, b, out, ind + 1, nfuncs_before, counter);
                let _ = writeln!(out, "{}}}", pad);
            }
        }
    }
}

/// the name of parameter `i` of function `s`: in a quarter of the functions the names a user might
/// well pick and that the macro's expansion could capture (`name`, `span`, `properties`, ...)
fn an(s: &FnSpec, i: usize) -> String {
    const PLAIN: [&str; 6] = ["name", "span", "properties", "fut", "guard", "short_name"];
    if s.id % 4 == 1 && i < PLAIN.len() {
        PLAIN[(i + s.id as usize / 4) % PLAIN.len()].to_string()
    } else {
        format!("a{}", i)
    }
}

fn fmt_string(p: &Prop, s: &FnSpec) -> (String, bool) {
    // returns (format string literal content, uses an argument)
    let usable: Vec<usize> = (0..s.args.len()).collect();
    // literal values made of brace escapes only: closing without opening, opening without
    // closing, reversed pairs (all legal format strings)
    match p.form {
        5 => return ("100%}}".into(), false),
        6 => return ("a}}b}}".into(), false),
        7 => return ("{{ open".into(), false),
        8 => return ("}}{{".into(), false),
        _ => {}
    }
    if usable.is_empty() || p.form == 0 {
        return ("v-lit".into(), false);
    }
    let a = an(s, usable[(p.arg as usize) % usable.len()]);
    match p.form {
        1 => (format!("{{{}:?}}", a), true),
        2 => (format!("x={{{}:?}} end", a), true),
        3 => ("{{lit}} only".into(), false),
        _ => (format!("{{{{{{{}:?}}}}}}", a), true),
    }
}

fn lit(s: &str) -> String {
    format!("{:?}", s)
}

fn render_fn(s: &FnSpec, annotated: bool, before: &[FnSpec]) -> String {
    let mut out = String::new();
    let is_async = matches!(s.kind, Kind::AsyncFree | Kind::AsyncEop | Kind::AsyncMethod | Kind::AsyncTrait);
    let lt = if s.kind == Kind::Lifetime { "'a " } else { "" };
    let mut params: Vec<String> = vec![];
    match s.kind {
        Kind::MethodRef | Kind::AsyncMethod | Kind::AsyncTrait => params.push("&self".into()),
        Kind::MethodMut => params.push("&mut self".into()),
        Kind::MethodOwned => params.push("self".into()),
        _ => {}
    }
    for (i, a) in s.args.iter().enumerate() {
        let t = match (s.kind, i) {
            (Kind::Generic, 0) if *a == ArgTy::I64 => "T".to_string(),
            (Kind::ImplTrait, 0) if *a == ArgTy::I64 => "impl std::fmt::Debug + Clone + Into<i64>".to_string(),
            _ => ty(*a, lt),
        };
        params.push(format!("{}: {}", an(s, i), t));
    }
    let generics = match s.kind {
        Kind::Generic => "<T: std::fmt::Debug + Clone + Into<i64>>",
        Kind::Lifetime => "<'a>",
        _ => "",
    };
    if annotated {
        let mut margs: Vec<String> = vec![];
        match s.naming {
            1 => margs.push(format!("name = {}", lit(&s.name))),
            2 => margs.push("short_name = true".into()),
            _ => {}
        }
        if s.kind == Kind::AsyncEop || s.eop {
            margs.push("enter_on_poll = true".into());
        }
        if !s.props.is_empty() {
            let ps: Vec<String> = s.props.iter().map(|p| format!("{}: {}", lit(&p.key), lit(&fmt_string(p, s).0))).collect();
            margs.push(format!("properties = {{ {} }}", ps.join(", ")));
        }
        let _ = writeln!(out, "    #[fastrace::trace({})]", margs.join(", "));
    }
    if s.kind == Kind::BoxPinTail {
        let ident = format!("f{}", s.id);
        let rt_ = ret_ty(s).trim_start_matches(" -> ").to_string();
        let _ = writeln!(out, "    #[allow(unused_mut, unused_variables, unused_assignments, unreachable_code, clippy::all)]");
        let _ = writeln!(out, "    pub fn {}({}) -> std::pin::Pin<Box<dyn std::future::Future<Output = {}> + Send + 'static>> {{", ident, params.join(", "), rt_);
        // statements in front of the Box::pin tail: plain side effects
        let _ = writeln!(out, "        rt::log(format!(\"f{}:prefix\"));", s.id);
        let _ = writeln!(out, "        let _pg = rt::DropLog::new(\"f{}.prefix-guard\");", s.id);
        // block-like statements (written without a trailing semicolon) in front of the tail
        let _ = writeln!(out, "        let mut warm: i64 = {};", s.id % 5);
        let _ = writeln!(out, "        if warm % 2 == 0 {{ rt::log(format!(\"f{}:prefix-if\")); warm += 7; }}", s.id);
        let _ = writeln!(out, "        for round in 0..2 {{ rt::log(format!(\"f{}:prefix-for:{{}}\", round)); warm += round; }}", s.id);
        let _ = writeln!(out, "        match warm {{ 0 => rt::log(format!(\"f{}:prefix-zero\")), _ => rt::log(format!(\"f{}:prefix-match:{{}}\", warm)) }}", s.id, s.id);
        let _ = writeln!(out, "        {{ rt::log(format!(\"f{}:prefix-block\")) }}", s.id);
        let _ = writeln!(out, "        Box::pin(async move {{");
        let _ = writeln!(out, "        let _ct = rt::CallTrace::enter({}, fastrace::func_path!());", s.id);
        let _ = writeln!(out, "        let mut acc: i64 = {} + warm;", s.id);
        for (i, a) in s.args.iter().enumerate() {
            let _ = writeln!(out, "        acc = acc.wrapping_mul(31).wrapping_add({});", as_i64(*a, &an(s, i)));
        }
        let mut counter = 0u32;
        render_body(s, &s.body, &mut out, 2, before, &mut counter);
        let _ = writeln!(out, "        rt::log(format!(\"f{}:end:{{}}\", acc));", s.id);
        let _ = writeln!(out, "        {}", ret_expr(s, false));
        let _ = writeln!(out, "        }})");
        let _ = writeln!(out, "    }}");
        return out;
    }
    if s.kind == Kind::AsyncBoxPin {
        let ident = format!("f{}", s.id);
        let rt_ = ret_ty(s).trim_start_matches(" -> ").to_string();
        let _ = writeln!(out, "    #[allow(unused_mut, unused_variables, unused_assignments, unreachable_code, clippy::all)]");
        let _ = writeln!(out, "    pub async fn {}({}) -> std::pin::Pin<Box<dyn std::future::Future<Output = {}> + Send + 'static>> {{", ident, params.join(", "), rt_);
        // the traced call is the factory itself
        let _ = writeln!(out, "        let _ct = rt::CallTrace::enter({}, fastrace::func_path!());", s.id);
        let _ = writeln!(out, "        rt::log(format!(\"f{}:factory\"));", s.id);
        let _ = writeln!(out, "        rt::YieldK::new(1).await;");
        let _ = writeln!(out, "        let _pg = rt::DropLog::new(\"f{}.factory-guard\");", s.id);
        let _ = writeln!(out, "        Box::pin(async move {{");
        let _ = writeln!(out, "        let mut acc: i64 = {};", s.id);
        for (i, a) in s.args.iter().enumerate() {
            let _ = writeln!(out, "        acc = acc.wrapping_mul(31).wrapping_add({});", as_i64(*a, &an(s, i)));
        }
        let mut counter = 0u32;
        render_body(s, &s.body, &mut out, 2, before, &mut counter);
        let _ = writeln!(out, "        rt::log(format!(\"f{}:end:{{}}\", acc));", s.id);
        let _ = writeln!(out, "        {}", ret_expr(s, false));
        let _ = writeln!(out, "        }})");
        let _ = writeln!(out, "    }}");
        return out;
    }
    let ident = format!("f{}", s.id);
    let vis = if s.kind == Kind::AsyncTrait { "" } else { "pub " };
    let _ = writeln!(out, "    #[allow(unused_mut, unused_variables, unused_assignments, unreachable_code, clippy::all)]");
    let _ = writeln!(out, "    {}{}fn {}{}({}){} {{", vis, if is_async { "async " } else { "" }, ident, generics, params.join(", "), ret_ty(s));
    let _ = writeln!(out, "        let _ct = rt::CallTrace::enter({}, fastrace::func_path!());", s.id);
    // accumulator from the arguments
    let _ = writeln!(out, "        let mut acc: i64 = {};", s.id);
    for (i, a) in s.args.iter().enumerate() {
        let src = match (s.kind, i) {
            (Kind::Generic, 0) | (Kind::ImplTrait, 0) if *a == ArgTy::I64 => format!("Into::<i64>::into({}.clone())", an(s, i)),
            _ => as_i64(*a, &an(s, i)),
        };
        let _ = writeln!(out, "        acc = acc.wrapping_mul(31).wrapping_add({});", src);
    }
    if matches!(s.kind, Kind::MethodRef | Kind::MethodMut | Kind::MethodOwned | Kind::AsyncMethod | Kind::AsyncTrait) {
        let _ = writeln!(out, "        acc = acc.wrapping_add(self.0);");
        if s.kind == Kind::MethodMut {
            let _ = writeln!(out, "        self.0 = self.0.wrapping_add(1);");
        }
    }
    let mut counter = 0u32;
    render_body(s, &s.body, &mut out, 2, before, &mut counter);
    let _ = writeln!(out, "        rt::log(format!(\"f{}:end:{{}}\", acc));", s.id);
    let _ = writeln!(out, "        {}", ret_expr(s, false));
    let _ = writeln!(out, "    }}");
    out
}

fn render_module(specs: &[FnSpec], annotated: bool) -> String {
    let mut out = String::new();
    let name = if annotated { "twin_t" } else { "twin_p" };
    let _ = writeln!(out, "#[allow(dead_code, non_snake_case)]\npub mod {} {{\n    use crate::rt;\n    pub struct S(pub i64);", name);
    let _ = writeln!(out, "    #[async_trait::async_trait]\n    pub trait Tr {{");
    for s in specs.iter().filter(|s| s.kind == Kind::AsyncTrait) {
        let params: Vec<String> = std::iter::once("&self".to_string()).chain(s.args.iter().enumerate().map(|(i, a)| format!("{}: {}", an(s, i), ty(*a, "")))).collect();
        let _ = writeln!(out, "        async fn f{}({}){};", s.id, params.join(", "), ret_ty(s));
    }
    let _ = writeln!(out, "    }}");
    for (i, s) in specs.iter().enumerate() {
        match s.kind {
            Kind::MethodRef | Kind::MethodMut | Kind::MethodOwned | Kind::AsyncMethod => {
                let _ = writeln!(out, "    impl S {{");
                out.push_str(&render_fn(s, annotated, &specs[..i]));
                let _ = writeln!(out, "    }}");
            }
            Kind::AsyncTrait => {}
            _ => out.push_str(&render_fn(s, annotated, &specs[..i])),
        }
    }
    let _ = writeln!(out, "    #[async_trait::async_trait]\n    impl Tr for S {{");
    for (i, s) in specs.iter().enumerate().filter(|(_, s)| s.kind == Kind::AsyncTrait) {
        out.push_str(&render_fn(s, annotated, &specs[..i]));
    }
    let _ = writeln!(out, "    }}\n}}");
    out
}

fn render_driver(s: &FnSpec) -> String {
    let mut out = String::new();
    let is_async = matches!(s.kind, Kind::AsyncFree | Kind::AsyncEop | Kind::AsyncMethod | Kind::AsyncTrait | Kind::BoxPinTail | Kind::AsyncBoxPin);
    let _ = writeln!(out, "#[allow(unused_mut, unused_variables)]\npub fn drive_f{}(annotated: bool, inp: &rt::Inputs) -> rt::Outcome {{", s.id);
    let mut call_args = vec![];
    let mut muts = vec![];
    for (i, a) in s.args.iter().enumerate() {
        match a {
            ArgTy::I64 => call_args.push(format!("inp.ints[{}]", i)),
            ArgTy::U8 => call_args.push(format!("inp.ints[{}] as u8", i)),
            ArgTy::Bool => call_args.push(format!("inp.ints[{}] % 2 == 0", i)),
            ArgTy::Str => call_args.push(format!("inp.strs[{}].as_str()", i % 2)),
            ArgTy::RefI64 => call_args.push(format!("&inp.ints[{}]", i)),
            ArgTy::MutI64 => {
                let _ = writeln!(out, "    let mut m{} = inp.ints[{}];", i, i);
                call_args.push(format!("&mut m{}", i));
                muts.push(format!("m{}", i));
            }
            ArgTy::OptI64 => call_args.push(format!("if inp.ints[{}] % 3 == 0 {{ None }} else {{ Some(inp.ints[{}]) }}", i, i)),
            ArgTy::Traced => call_args.push(format!("rt::TracedDbg(inp.ints[{}])", i)),
        }
    }
    let recv = match s.kind {
        Kind::MethodRef | Kind::AsyncMethod | Kind::AsyncTrait => Some("let recv = $m::S(inp.ints[3]);"),
        Kind::MethodMut => Some("let mut recv = $m::S(inp.ints[3]);"),
        Kind::MethodOwned => Some("let recv = $m::S(inp.ints[3]);"),
        _ => None,
    };
    let callee = |m: &str| -> String {
        let args = call_args.join(", ");
        match s.kind {
            Kind::MethodRef | Kind::MethodMut | Kind::MethodOwned | Kind::AsyncMethod => format!("recv.f{}({})", s.id, args),
            Kind::AsyncTrait => format!("{}::Tr::f{}(&recv, {})", m, s.id, args),
            _ => format!("{}::f{}({})", m, s.id, args),
        }
    };
    let _ = writeln!(out, "    let mut polls = 0usize;");
    let _ = writeln!(out, "    let res = std::panic::catch_unwind(std::panic::AssertUnwindSafe(|| {{");
    for (m, cond) in [("crate::generated::twin_t", "annotated"), ("crate::generated::twin_p", "!annotated")] {
        let _ = writeln!(out, "        if {} {{", cond);
        if let Some(r) = recv {
            let _ = writeln!(out, "            {}", r.replace("$m", m));
        }
        if is_async {
            let _ = writeln!(out, "            let fut = {};", callee(m));
            if s.kind == Kind::AsyncBoxPin {
                // the factory call completes here; the future it returns is polled elsewhere
                let _ = writeln!(out, "            let inner = rt::drive(fut, &mut polls);");
                let _ = writeln!(out, "            let r = rt::drive_elsewhere(inner, &mut polls);");
            } else if matches!(s.kind, Kind::AsyncTrait | Kind::BoxPinTail) && !s.eop && s.id % 2 == 0 {
                // a function returning a boxed future starts its span with the call, under the
                // caller's context; the future is polled at another place
                let _ = writeln!(out, "            let r = rt::drive_elsewhere(fut, &mut polls);");
            } else {
                let _ = writeln!(out, "            let r = rt::drive(fut, &mut polls);");
            }
        } else {
            let _ = writeln!(out, "            let r = {};", callee(m));
        }
        let _ = writeln!(out, "            return format!(\"{{:?}}\", r);");
        let _ = writeln!(out, "        }}");
    }
    let _ = writeln!(out, "        unreachable!()");
    let _ = writeln!(out, "    }}));");
    let _ = writeln!(out, "    rt::Outcome::new(res, vec![{}], polls)", muts.join(", "));
    let _ = writeln!(out, "}}");
    // expected properties: the same format strings evaluated by the harness on the same arguments
    let _ = writeln!(out, "#[allow(unused_mut, unused_variables)]\npub fn props_f{}(inp: &rt::Inputs) -> Vec<(String, String)> {{", s.id);
    for (i, a) in s.args.iter().enumerate() {
        let e = match a {
            ArgTy::I64 => format!("let {} = inp.ints[{}];", an(s, i), i),
            ArgTy::U8 => format!("let {} = inp.ints[{}] as u8;", an(s, i), i),
            ArgTy::Bool => format!("let {} = inp.ints[{}] % 2 == 0;", an(s, i), i),
            ArgTy::Str => format!("let {} = inp.strs[{}].as_str();", an(s, i), i % 2),
            ArgTy::RefI64 => format!("let {} = &inp.ints[{}];", an(s, i), i),
            ArgTy::MutI64 => format!("let mut m{} = inp.ints[{}]; let {} = &mut m{};", i, i, an(s, i), i),
            ArgTy::OptI64 => format!("let {} = if inp.ints[{}] % 3 == 0 {{ None }} else {{ Some(inp.ints[{}]) }};", an(s, i), i, i),
            ArgTy::Traced => format!("let {} = rt::TracedDbg(inp.ints[{}]);", an(s, i), i),
        };
        let _ = writeln!(out, "    {}", e);
    }
    let _ = writeln!(out, "    vec![");
    for p in &s.props {
        let (f, _) = fmt_string(p, s);
        let _ = writeln!(out, "        ({}.to_string(), format!({})),", lit(&p.key), lit(&f));
    }
    let _ = writeln!(out, "    ]\n}}");
    out
}

fn arg<'a>(args: &'a [String], k: &str) -> Option<&'a str> {
    args.iter().position(|a| a == k).and_then(|i| args.get(i + 1)).map(|s| s.as_str())
}

fn main() {
    let args: Vec<String> = std::env::args().collect();
    let out = arg(&args, "--out").expect("--out");
    let specs: Vec<FnSpec> = if let Some(f) = arg(&args, "--specs") {
        // replay: render the given specs only
        serde_json::from_str(&std::fs::read_to_string(f).unwrap()).unwrap()
    } else {
        let seed: u64 = arg(&args, "--seed").unwrap_or("0").parse().unwrap();
        let n: usize = arg(&args, "--pairs").unwrap_or("100").parse().unwrap();
        let mut sb = [0u8; 32];
        let mut x = seed.wrapping_mul(0x9E3779B97F4A7C15) ^ 0xC15;
        for c in sb.chunks_mut(8) {
            x = x.wrapping_add(0x9E3779B97F4A7C15);
            let mut z = x;
            z = (z ^ (z >> 30)).wrapping_mul(0xBF58476D1CE4E5B9);
            z = (z ^ (z >> 27)).wrapping_mul(0x94D049BB133111EB);
            c.copy_from_slice(&(z ^ (z >> 31)).to_le_bytes());
        }
        let mut runner = TestRunner::new_with_rng(Config::default(), TestRng::from_seed(RngAlgorithm::ChaCha, &sb));
        let st = spec();
        (0..n)
            .map(|i| {
                let mut s = st.new_tree(&mut runner).unwrap().current();
                s.id = i;
                s
            })
            .collect()
    };
    let mut src = String::new();
    src.push_str("// @generated by fr-macrogen: twin functions for C15. Do not edit.\n");
    src.push_str(&render_module(&specs, true));
    src.push_str(&render_module(&specs, false));
    for s in &specs {
        src.push_str(&render_driver(s));
    }
    let _ = writeln!(src, "pub static PAIRS: &[rt::Pair] = &[");
    for s in &specs {
        let is_async = matches!(s.kind, Kind::AsyncFree | Kind::AsyncEop | Kind::AsyncMethod | Kind::AsyncTrait | Kind::BoxPinTail | Kind::AsyncBoxPin);
        let _ = writeln!(
            src,
            "    rt::Pair {{ id: {}, ident: \"f{}\", naming: {}, name: {}, is_async: {}, eop: {}, nprops: {}, kind: \"{:?}\", drive: drive_f{}, props: props_f{}, spec: {} }},",
            s.id,
            s.id,
            s.naming,
            lit(&s.name),
            is_async,
            s.kind == Kind::AsyncEop || s.eop,
            s.props.len(),
            s.kind,
            s.id,
            s.id,
            lit(&serde_json::to_string(s).unwrap())
        );
    }
    let _ = writeln!(src, "];");
    src.push_str("use crate::rt;\n");
    std::fs::write(out, src).unwrap();
    if let Some(sp) = arg(&args, "--specs-out") {
        std::fs::write(sp, serde_json::to_string(&specs).unwrap()).unwrap();
    }
}

//! Runtime support shared by the generated twins: side-effect log, drop-logging guards, call
//! trace, scripted awaits, drivers' input/outcome types.

use std::cell::RefCell;
use std::future::Future;
use std::pin::Pin;
use std::task::{Context, Poll};

thread_local! {
    pub static LOG: RefCell<Vec<String>> = const { RefCell::new(Vec::new()) };
    /// (depth, fn id, func_path!() as seen inside the body)
    pub static CALLS: RefCell<Vec<(usize, usize, &'static str)>> = const { RefCell::new(Vec::new()) };
    static DEPTH: RefCell<usize> = const { RefCell::new(0) };
}

pub fn log(s: String) {
    LOG.with(|l| l.borrow_mut().push(s));
}

pub struct DropLog(&'static str);
impl DropLog {
    pub fn new(s: &'static str) -> Self {
        log(format!("{}:new", s));
        DropLog(s)
    }
}
impl Drop for DropLog {
    fn drop(&mut self) {
        log(format!("{}:drop", self.0));
    }
}

pub struct CallTrace;
impl CallTrace {
    pub fn enter(id: usize, path: &'static str) -> Self {
        let d = DEPTH.with(|d| {
            let mut d = d.borrow_mut();
            *d += 1;
            *d - 1
        });
        CALLS.with(|c| c.borrow_mut().push((d, id, path)));
        CallTrace
    }
}
impl Drop for CallTrace {
    fn drop(&mut self) {
        DEPTH.with(|d| *d.borrow_mut() -= 1);
    }
}

pub fn fallible(acc: i64, m: u8) -> Result<i64, String> {
    if acc.rem_euclid(m as i64) == 1 {
        log(format!("fallible:err:{}", acc));
        Err(format!("e{}", acc))
    } else {
        Ok(acc.rem_euclid(17))
    }
}

pub fn maybe(acc: i64, m: u8) -> Option<i64> {
    if acc.rem_euclid(m as i64) == 1 {
        log(format!("maybe:none:{}", acc));
        None
    } else {
        Some(acc.rem_euclid(13))
    }
}

/// a future that returns Pending k times
pub struct YieldK(u8);
impl YieldK {
    pub fn new(k: u8) -> Self {
        YieldK(k)
    }
}
impl Future for YieldK {
    type Output = ();
    fn poll(mut self: Pin<&mut Self>, _cx: &mut Context<'_>) -> Poll<()> {
        if self.0 == 0 {
            Poll::Ready(())
        } else {
            self.0 -= 1;
            log("yield".into());
            Poll::Pending
        }
    }
}

fn noop_waker() -> std::task::Waker {
    use std::task::{RawWaker, RawWakerVTable, Waker};
    fn clone(_: *const ()) -> RawWaker {
        RawWaker::new(std::ptr::null(), &VTABLE)
    }
    fn noop(_: *const ()) {}
    static VTABLE: RawWakerVTable = RawWakerVTable::new(clone, noop, noop, noop);
    unsafe { Waker::from_raw(RawWaker::new(std::ptr::null(), &VTABLE)) }
}

thread_local! {
    /// runs once, after the first poll that returned Pending (or is left for the caller): the
    /// caller's tracing context is torn down and a collector cycle runs while the future is
    /// still alive
    pub static MID_POLL: std::cell::RefCell<Option<Box<dyn FnOnce()>>> = const { std::cell::RefCell::new(None) };
}

thread_local! {
    /// the future returned by the call is dropped without ever being polled (the losing branch
    /// of a select, a cancelled request): `drive` unwinds with this payload instead of a result
    pub static DROP_UNPOLLED: std::cell::Cell<bool> = const { std::cell::Cell::new(false) };
}
pub const UNPOLLED: &str = "future dropped without a poll";

thread_local! {
    /// (k, f): before poll number k of the next driven future, `f` opens a scope on this thread;
    /// what it returns is kept until the future has completed (contexts 5 and 6: the call was made
    /// outside any scope, the polls - all of them, or all but the first - happen inside one)
    pub static SCOPE_AT_POLL: RefCell<Option<(usize, Box<dyn FnOnce() -> Box<dyn std::any::Any>>)>> = const { RefCell::new(None) };
}

/// drive a future to completion with a no-op waker, counting polls
pub fn drive<F: Future>(fut: F, polls: &mut usize) -> F::Output {
    if DROP_UNPOLLED.with(|d| d.get()) {
        drop(fut);
        std::panic::resume_unwind(Box::new(UNPOLLED.to_string()));
    }
    let mut fut = Box::pin(fut);
    let mut _held: Option<Box<dyn std::any::Any>> = None;
    let w = noop_waker();
    let mut cx = Context::from_waker(&w);
    loop {
        *polls += 1;
        let due = SCOPE_AT_POLL.with(|s| s.borrow().as_ref().map_or(false, |(k, _)| *k == *polls));
        if due {
            if let Some((_, f)) = SCOPE_AT_POLL.with(|s| s.borrow_mut().take()) {
                _held = Some(f());
            }
        }
        log(format!("poll#{}", *polls));
        if let Poll::Ready(v) = fut.as_mut().poll(&mut cx) {
            return v;
        }
        if let Some(f) = MID_POLL.with(|m| m.borrow_mut().take()) {
            f();
        }
        assert!(*polls < 1000, "future never completes");
    }
}

pub const ELSEWHERE: &str = "ctx-elsewhere";
pub const DBG_SPAN: &str = "dbg-fmt";
pub const DBG_EVENT: &str = "dbg-ev";

/// an argument type whose `Debug` impl is itself instrumented: formatting it (as a `#[trace]`
/// property does) enters a local span and adds an event
#[derive(Clone, Copy, PartialEq)]
pub struct TracedDbg(pub i64);
impl std::fmt::Debug for TracedDbg {
    fn fmt(&self, f: &mut std::fmt::Formatter<'_>) -> std::fmt::Result {
        let _l = fastrace::local::LocalSpan::enter_with_local_parent(DBG_SPAN);
        fastrace::local::LocalSpan::add_event(fastrace::Event::new(DBG_EVENT));
        write!(f, "T({})", self.0)
    }
}

/// drive a future under a local span of the harness (a place other than the call site)
pub fn drive_elsewhere<F: Future>(fut: F, polls: &mut usize) -> F::Output {
    let _l = fastrace::local::LocalSpan::enter_with_local_parent(ELSEWHERE);
    drive(fut, polls)
}

#[derive(Clone, Debug, serde::Serialize, serde::Deserialize)]
pub struct Inputs {
    pub ints: [i64; 4],
    pub strs: [String; 2],
}

#[derive(Clone, Debug, PartialEq)]
pub struct Outcome {
    pub ret: Option<String>,
    pub panic: Option<String>,
    pub muts: Vec<i64>,
    pub polls: usize,
}

impl Outcome {
    pub fn new(res: std::thread::Result<String>, muts: Vec<i64>, polls: usize) -> Self {
        match res {
            Ok(r) => Outcome { ret: Some(r), panic: None, muts, polls },
            Err(p) => {
                let msg = if let Some(s) = p.downcast_ref::<&str>() {
                    s.to_string()
                } else if let Some(s) = p.downcast_ref::<String>() {
                    s.clone()
                } else {
                    "<non-string payload>".into()
                };
                Outcome { ret: None, panic: Some(msg), muts, polls }
            }
        }
    }
}

pub struct Pair {
    pub id: usize,
    pub ident: &'static str,
    pub naming: u8,
    pub name: &'static str,
    pub is_async: bool,
    pub eop: bool,
    pub nprops: usize,
    pub kind: &'static str,
    pub drive: fn(bool, &Inputs) -> Outcome,
    pub props: fn(&Inputs) -> Vec<(String, String)>,
    pub spec: &'static str,
}

//! C15 runtime harness: calls every generated pair (annotated twin vs plain twin) with generated
//! arguments under generated tracing contexts and compares behaviour and delivered records.
mod generated;
mod rt;

use std::collections::{BTreeMap, HashSet};
use std::io::Write;
use std::sync::{Arc, Mutex};

use fastrace::collector::{Config, Reporter};
use fastrace::prelude::*;
use proptest::prelude::*;
use proptest::test_runner::{Config as PConfig, RngAlgorithm, TestCaseError, TestError, TestRng, TestRunner};
use serde_json::json;

struct Sink(Arc<Mutex<Vec<SpanRecord>>>);
impl Reporter for Sink {
    fn report(&mut self, spans: Vec<SpanRecord>) {
        self.0.lock().unwrap().extend(spans);
    }
}

#[derive(Clone, Debug, serde::Serialize, serde::Deserialize)]
struct Case {
    pair: usize,
    inp: rt::Inputs,
    /// 0: no local parent; 1: root as local parent; 2: root + an open local span
    ctx: u8,
}

#[derive(Debug)]
struct Viol {
    sig: String,
    msg: String,
}

fn arg<'a>(args: &'a [String], k: &str) -> Option<&'a str> {
    args.iter().position(|a| a == k).and_then(|i| args.get(i + 1)).map(|s| s.as_str())
}

fn seed_bytes(seed: u64, worker: u64) -> [u8; 32] {
    let mut x = seed.wrapping_mul(0x9E3779B97F4A7C15).wrapping_add(worker.wrapping_mul(0xBF58476D1CE4E5B9)) ^ 0xC15C15;
    let mut out = [0u8; 32];
    for c in out.chunks_mut(8) {
        x = x.wrapping_add(0x9E3779B97F4A7C15);
        let mut z = x;
        z = (z ^ (z >> 30)).wrapping_mul(0xBF58476D1CE4E5B9);
        z = (z ^ (z >> 27)).wrapping_mul(0x94D049BB133111EB);
        c.copy_from_slice(&(z ^ (z >> 31)).to_le_bytes());
    }
    out
}

struct Run {
    out: rt::Outcome,
    log: Vec<String>,
    calls: Vec<(usize, usize, &'static str)>,
    records: Vec<SpanRecord>,
    ctx_parent: Option<(u128, u64)>,
    root_name: String,
    local_name: String,
}

thread_local! {
    static LATE_PARENT: std::cell::Cell<Option<(u128, u64)>> = const { std::cell::Cell::new(None) };
}

fn run_one(sink: &Arc<Mutex<Vec<SpanRecord>>>, c: &Case, annotated: bool, uniq: u64) -> Run {
    let pair = &generated::PAIRS[c.pair];
    fastrace::flush();
    sink.lock().unwrap().clear();
    rt::LOG.with(|l| l.borrow_mut().clear());
    rt::CALLS.with(|l| l.borrow_mut().clear());
    let root_name = format!("ctx-root-{}", uniq);
    let local_name = format!("ctx-local-{}", uniq);
    let mut ctx_parent = None;
    let out;
    // context 3: as context 1, but the caller's scope and root end (and a collector cycle runs)
    // after the first poll that returned Pending: the call's span finishes after its trace was
    // reported. Only for futures that are polled where they were created and that record one
    // span per call.
    let late = c.ctx == 3 && pair.is_async && !pair.eop && !(pair.id % 2 == 0 && (pair.kind == "AsyncTrait" || pair.kind == "BoxPinTail")) && pair.kind != "AsyncBoxPin";
    if late {
        let root = Span::root(root_name.clone(), SpanContext::new(TraceId(uniq as u128 + 1), SpanId(0)));
        let g = root.set_local_parent();
        ctx_parent = SpanContext::current_local_parent().map(|c| (c.trace_id.0, c.span_id.0));
        rt::MID_POLL.with(|m| {
            *m.borrow_mut() = Some(Box::new(move || {
                drop(g);
                drop(root);
                fastrace::flush();
            }))
        });
        out = (pair.drive)(annotated, &c.inp);
        // the future never returned Pending: the context ends now
        if let Some(f) = rt::MID_POLL.with(|m| m.borrow_mut().take()) {
            f();
        }
    } else if c.ctx >= 5 {
        // contexts 5 and 6: the call is made outside any scope; the caller's root becomes the
        // local parent just before the first (5) or the second (6) poll of the returned future
        let root = std::rc::Rc::new(Span::root(root_name.clone(), SpanContext::new(TraceId(uniq as u128 + 1), SpanId(0))));
        let r2 = root.clone();
        rt::SCOPE_AT_POLL.with(|s| {
            *s.borrow_mut() = Some((
                if c.ctx == 5 { 1 } else { 2 },
                Box::new(move || {
                    let g = r2.set_local_parent();
                    LATE_PARENT.with(|p| p.set(SpanContext::current_local_parent().map(|c| (c.trace_id.0, c.span_id.0))));
                    Box::new(g) as Box<dyn std::any::Any>
                }),
            ))
        });
        LATE_PARENT.with(|p| p.set(None));
        out = (pair.drive)(annotated, &c.inp);
        rt::SCOPE_AT_POLL.with(|s| *s.borrow_mut() = None);
        ctx_parent = LATE_PARENT.with(|p| p.get());
        drop(root);
    } else {
        // context 4: as context 1, but the returned future is dropped without a poll
        let unpolled = c.ctx == 4 && pair.is_async && !pair.eop;
        rt::DROP_UNPOLLED.with(|d| d.set(unpolled));
        struct Reset;
        impl Drop for Reset {
            fn drop(&mut self) {
                rt::DROP_UNPOLLED.with(|d| d.set(false));
            }
        }
        let _reset = Reset;
        let root = Span::root(root_name.clone(), SpanContext::new(TraceId(uniq as u128 + 1), SpanId(0)));
        let _g = if c.ctx >= 1 { Some(root.set_local_parent()) } else { None };
        let _l = if c.ctx == 2 { Some(LocalSpan::enter_with_local_parent(local_name.clone())) } else { None };
        if c.ctx >= 1 {
            ctx_parent = SpanContext::current_local_parent().map(|c| (c.trace_id.0, c.span_id.0));
        }
        out = (pair.drive)(annotated, &c.inp);
    }
    fastrace::flush();
    let records = std::mem::take(&mut *sink.lock().unwrap());
    Run {
        out,
        log: rt::LOG.with(|l| std::mem::take(&mut *l.borrow_mut())),
        calls: rt::CALLS.with(|l| std::mem::take(&mut *l.borrow_mut())),
        records,
        ctx_parent,
        root_name,
        local_name,
    }
}

fn expected_name(pair: &rt::Pair, plain_path: &str) -> String {
    match pair.naming {
        1 => pair.name.to_string(),
        2 => pair.ident.to_string(),
        _ => plain_path.replace("twin_p", "twin_t"),
    }
}

fn check(sink: &Arc<Mutex<Vec<SpanRecord>>>, c: &Case, uniq: &mut u64) -> Vec<Viol> {
    let mut out = vec![];
    let pair = &generated::PAIRS[c.pair];
    *uniq += 2;
    // expected properties: evaluated BEFORE the call on the same arguments
    let want_props = (pair.props)(&c.inp);
    let plain = run_one(sink, c, false, *uniq);
    let ann = run_one(sink, c, true, *uniq + 1);
    let who = format!("pair f{} ({})", pair.id, pair.kind);
    // --- behaviour: return value / panic payload / side effects / &mut arguments
    if plain.out.ret != ann.out.ret {
        out.push(Viol { sig: "return-value".into(), msg: format!("{}: annotated returned {:?}, plain {:?}", who, ann.out.ret, plain.out.ret) });
    }
    if plain.out.panic != ann.out.panic {
        out.push(Viol { sig: "panic-behaviour".into(), msg: format!("{}: annotated panic {:?}, plain {:?}", who, ann.out.panic, plain.out.panic) });
    }
    if plain.out.muts != ann.out.muts {
        out.push(Viol { sig: "mut-arguments".into(), msg: format!("{}: &mut arguments end as {:?} (annotated) vs {:?} (plain)", who, ann.out.muts, plain.out.muts) });
    }
    if plain.log != ann.log {
        let i = plain.log.iter().zip(ann.log.iter()).position(|(a, b)| a != b).unwrap_or(plain.log.len().min(ann.log.len()));
        out.push(Viol {
            sig: "side-effects".into(),
            msg: format!("{}: side-effect logs differ at entry {}: annotated {:?} vs plain {:?} (lengths {} vs {})", who, i, ann.log.get(i), plain.log.get(i), ann.log.len(), plain.log.len()),
        });
    }
    if !pair.eop && plain.out.polls != ann.out.polls {
        out.push(Viol { sig: "poll-count".into(), msg: format!("{}: annotated needed {} polls, plain {}", who, ann.out.polls, plain.out.polls) });
    }
    // --- records
    // spans recorded by the instrumented Debug impl of an argument while a property is formatted:
    // not the function's spans, and nothing of the function may end up on them
    for r in ann.records.iter().filter(|r| r.name == rt::DBG_SPAN) {
        if !r.properties.is_empty() {
            out.push(Viol {
                sig: "properties-on-nested-record".into(),
                msg: format!("{}: the span recorded while an argument was formatted carries properties {:?}", who, r.properties.iter().map(|(k, v)| (k.to_string(), v.to_string())).collect::<Vec<_>>()),
            });
        }
    }
    let ours: Vec<&SpanRecord> = ann.records.iter().filter(|r| r.name != ann.root_name && r.name != ann.local_name && r.name != rt::ELSEWHERE && r.name != rt::DBG_SPAN).collect();
    // the plain twin records nothing by itself
    let plain_ours: Vec<&SpanRecord> = plain.records.iter().filter(|r| r.name != plain.root_name && r.name != plain.local_name && r.name != rt::ELSEWHERE && r.name != rt::DBG_SPAN).collect();
    if !plain_ours.is_empty() {
        out.push(Viol { sig: "harness".into(), msg: format!("{}: the plain twin recorded spans: {:?}", who, plain_ours.iter().map(|r| r.name.to_string()).collect::<Vec<_>>()) });
    }
    if c.ctx == 0 {
        if !ours.is_empty() {
            out.push(Viol { sig: "recorded-without-local-parent".into(), msg: format!("{}: {} spans recorded without a local parent", who, ours.len()) });
        }
        return out;
    }
    if c.ctx >= 5 {
        let Some((ptrace, pid)) = ann.ctx_parent else {
            // the scope never opened (a plain function, or a future that was ready before the
            // poll the scope was due at): nothing had a local parent
            if !ours.is_empty() {
                out.push(Viol { sig: "recorded-without-local-parent".into(), msg: format!("{}: {} spans recorded without a local parent", who, ours.len()) });
            }
            return out;
        };
        let calls = &plain.calls;
        if calls.is_empty() {
            return out;
        }
        let top_name = expected_name(&generated::PAIRS[calls[0].1], calls[0].2);
        let nested_same = calls.iter().skip(1).filter(|(_, id, p)| expected_name(&generated::PAIRS[*id], p) == top_name).count();
        let top_recs: Vec<&&SpanRecord> = ours.iter().filter(|r| r.name == top_name).collect();
        let at_call = pair.kind == "AsyncTrait" || pair.kind == "BoxPinTail";
        if pair.eop {
            // one span per poll that had a local parent
            if calls.len() == 1 {
                let want = if c.ctx == 5 { ann.out.polls } else { ann.out.polls.saturating_sub(1) };
                let under = top_recs.iter().filter(|r| r.parent_id.0 == pid && r.trace_id.0 == ptrace).count();
                if top_recs.len() != want || under != want {
                    out.push(Viol { sig: "span-count:enter_on_poll:scope-opened-late".into(), msg: format!("{}: {} polls, the caller's scope opened before poll {}: expected {} span(s) {:?} under the caller's root, delivered {} ({} under it)", who, ann.out.polls, if c.ctx == 5 { 1 } else { 2 }, want, top_name, top_recs.len(), under) });
                }
            }
            return out;
        }
        // a span that was created where nothing records is a no-op for good: nothing of the call
        // itself is recorded later, wherever its future is polled
        let created_without_parent = at_call || c.ctx == 6;
        if created_without_parent {
            if nested_same == 0 && !top_recs.is_empty() {
                out.push(Viol { sig: "span-of-call-without-local-parent".into(), msg: format!("{}: the call was made (its span created) without a local parent, its future polled inside a scope: {} span(s) {:?} delivered", who, top_recs.len(), top_name) });
            }
            if let Some(root) = ann.records.iter().find(|r| r.name == ann.root_name) {
                if !root.properties.is_empty() || !root.events.is_empty() {
                    out.push(Viol { sig: "properties-on-pollers-span".into(), msg: format!("{}: the span of the scope the future was polled in carries {:?}: properties of a call whose own span does not record", who, root.properties.iter().map(|(k, v)| (k.to_string(), v.to_string())).collect::<Vec<_>>()) });
                }
            }
            return out;
        }
        // a plain `async fn` creates its span at its first poll: context 5 is context 1 for it
        // (other shapes do part of their work at call time: nothing further is claimed for them)
        if pair.kind != "AsyncFree" && pair.kind != "AsyncMethod" {
            return out;
        }
    }
    if c.ctx == 4 && pair.is_async && !pair.eop && ann.out.panic.as_deref() == Some(rt::UNPOLLED) {
        // the future was dropped without a poll: the body never ran. A function that returns a
        // boxed future (async-trait method, hand-written Box::pin tail) has started its span
        // with the call all the same: one span, named and parented as always, with the
        // configured properties; a real `async fn` has not started anything
        let at_call = pair.kind == "AsyncTrait" || pair.kind == "BoxPinTail";
        let want = if at_call { 1 } else { 0 };
        if ours.len() != want {
            out.push(Viol { sig: "span-count:unpolled-future".into(), msg: format!("{}: the returned future was dropped without a poll: expected {} span(s), delivered {:?}", who, want, ours.iter().map(|r| r.name.to_string()).collect::<Vec<_>>()) });
        } else if at_call {
            let r = ours[0];
            let (ptrace, pid) = ann.ctx_parent.unwrap_or((0, 0));
            let name = if pair.naming == 1 { pair.name } else { pair.ident };
            let got_props: Vec<(String, String)> = r.properties.iter().map(|(k, v)| (k.to_string(), v.to_string())).collect();
            if r.name != name || r.parent_id.0 != pid || r.trace_id.0 != ptrace || got_props != want_props {
                out.push(Viol { sig: "span-of-unpolled-future".into(), msg: format!("{}: span of a call whose future was never polled: name {:?} (expected {:?}), parent {:x} (expected {:x}), properties {:?} (expected {:?})", who, r.name, name, r.parent_id.0, pid, got_props, want_props) });
            }
        }
        return out;
    }
    // expected call tree from the plain twin's call trace: (depth, id, path)
    let calls = &plain.calls;
    if calls.is_empty() {
        return out;
    }
    // expected (name, parent index) list; top call may appear once per poll with enter_on_poll
    let top = &generated::PAIRS[calls[0].1];
    let top_name = expected_name(top, calls[0].2);
    let top_recs: Vec<&&SpanRecord> = ours.iter().filter(|r| r.name == top_name).collect();
    let expected_top = if pair.eop { ann.out.polls.max(1) } else { 1 };
    // nested calls may share the name with the top one only if they are the same function; count them
    let nested_same = calls.iter().skip(1).filter(|(_, id, p)| expected_name(&generated::PAIRS[*id], p) == top_name).count();
    if top_recs.len() != expected_top + nested_same {
        out.push(Viol {
            sig: if pair.eop { "span-count:enter_on_poll".into() } else { "span-count".into() },
            msg: format!("{}: expected {} span(s) named {:?}, delivered {} (all delivered: {:?})", who, expected_top + nested_same, top_name, top_recs.len(), ours.iter().map(|r| r.name.to_string()).collect::<Vec<_>>()),
        });
        return out;
    }
    // parent of the top span(s) = the caller's local parent
    let (ptrace, pid) = ann.ctx_parent.unwrap_or((0, 0));
    let direct: Vec<&&&SpanRecord> = top_recs.iter().filter(|r| r.parent_id.0 == pid && r.trace_id.0 == ptrace).collect();
    if direct.len() < expected_top {
        out.push(Viol {
            sig: "span-parent".into(),
            msg: format!("{}: span {:?} is not recorded under the caller's local parent {:#x} (parents: {:x?})", who, top_name, pid, top_recs.iter().map(|r| r.parent_id.0).collect::<Vec<_>>()),
        });
    }
    // properties of the top span: configured keys in order with the evaluated format strings
    if !pair.eop {
        if let Some(r) = direct.first() {
            let got: Vec<(String, String)> = r.properties.iter().map(|(k, v)| (k.to_string(), v.to_string())).collect();
            if got != want_props {
                out.push(Viol { sig: "span-properties".into(), msg: format!("{}: span {:?} has properties {:?}, expected {:?}", who, top_name, got, want_props) });
            }
        }
    }
    // nested calls: every traced call records one span under its caller's span
    // expected multiset of (name, parent name)
    let mut want: Vec<(String, String)> = vec![];
    let mut stack: Vec<(usize, String)> = vec![];
    for (d, id, p) in calls.iter() {
        let nm = expected_name(&generated::PAIRS[*id], p);
        while stack.last().map_or(false, |(sd, _)| *sd >= *d) {
            stack.pop();
        }
        if let Some((_, parent)) = stack.last() {
            want.push((nm.clone(), parent.clone()));
        }
        stack.push((*d, nm));
    }
    let by_id: std::collections::HashMap<u64, &&SpanRecord> = ours.iter().map(|r| (r.span_id.0, r)).collect();
    let mut got: Vec<(String, String)> = vec![];
    for r in &ours {
        if let Some(p) = by_id.get(&r.parent_id.0) {
            got.push((r.name.to_string(), p.name.to_string()));
        }
    }
    let mut w2 = want.clone();
    w2.sort();
    let mut g2 = got.clone();
    g2.sort();
    if !pair.eop && w2 != g2 {
        out.push(Viol { sig: "nested-spans".into(), msg: format!("{}: nested traced calls recorded as {:?}, expected {:?}", who, g2, w2) });
    }
    if !pair.eop && ours.len() != calls.len() {
        out.push(Viol { sig: "span-total".into(), msg: format!("{}: {} spans delivered for {} traced calls", who, ours.len(), calls.len()) });
    }
    out
}

fn case_strategy(npairs: usize, only: Option<usize>) -> BoxedStrategy<Case> {
    let pair = match only {
        Some(p) => Just(p).boxed(),
        None => (0..npairs).boxed(),
    };
    let int = prop_oneof![4 => -20i64..200, 2 => any::<i64>(), 1 => Just(0i64), 1 => Just(i64::MAX), 1 => Just(i64::MIN)];
    let s = prop_oneof![3 => "[a-z]{0,6}", 1 => Just("é😀\"{}".to_string()), 1 => Just(String::new())];
    (pair, [int.clone(), int.clone(), int.clone(), int], [s.clone(), s], prop_oneof![1 => Just(0u8), 3 => Just(1u8), 2 => Just(2u8), 2 => Just(3u8), 1 => Just(4u8), 1 => Just(5u8), 1 => Just(6u8)])
        .prop_map(|(pair, ints, strs, ctx)| Case { pair, inp: rt::Inputs { ints, strs }, ctx })
        .boxed()
}

fn main() {
    let args: Vec<String> = std::env::args().collect();
    std::panic::set_hook(Box::new(|_| {}));
    let sink = Arc::new(Mutex::new(Vec::new()));
    fastrace::set_reporter(Sink(sink.clone()), Config::default().report_interval(std::time::Duration::from_secs(3600)));
    std::thread::sleep(std::time::Duration::from_millis(50));
    let npairs = generated::PAIRS.len();
    match args.get(1).map(|s| s.as_str()) {
        Some("worker") => {
            let seed: u64 = arg(&args, "--seed").unwrap_or("0").parse().unwrap();
            let wid: u64 = arg(&args, "--worker").unwrap_or("0").parse().unwrap();
            let cases: u32 = arg(&args, "--cases").unwrap_or("1000").parse().unwrap();
            let out = arg(&args, "--out").expect("--out");
            let known: Vec<String> = arg(&args, "--known").map(|k| k.split("||").filter(|s| !s.is_empty()).map(|s| s.to_string()).collect()).unwrap_or_default();
            let cfg = PConfig { cases, failure_persistence: None, max_shrink_iters: 400, ..PConfig::default() };
            let mut runner = TestRunner::new_with_rng(cfg, TestRng::from_seed(RngAlgorithm::ChaCha, &seed_bytes(seed, wid)));
            let start = std::time::Instant::now();
            let uniq = std::cell::RefCell::new(wid * 1_000_000_000);
            let st = std::cell::RefCell::new((0u64, HashSet::<u64>::new(), Vec::<serde_json::Value>::new(), false, BTreeMap::<String, u64>::new()));
            let res = runner.run(&case_strategy(npairs, None), |c| {
                // a panic that escapes from the tracing calls around the twins (context guards,
                // flush) is itself a finding: the annotated call left the thread's tracing state
                // inconsistent (the calls inside the twins are already under catch_unwind)
                let viols = match std::panic::catch_unwind(std::panic::AssertUnwindSafe(|| check(&sink, &c, &mut uniq.borrow_mut()))) {
                    Ok(v) => v,
                    Err(p) => {
                        let msg = p.downcast_ref::<String>().cloned().or_else(|| p.downcast_ref::<&str>().map(|s| s.to_string())).unwrap_or_default();
                        vec![Viol { sig: "tracing-state-corrupted-after-call".into(), msg: format!("pair f{}: a tracing call made around the annotated call panicked: {}", c.pair, msg) }]
                    }
                };
                let unknown: Vec<&Viol> = viols.iter().filter(|v| !known.contains(&v.sig)).collect();
                let mut s = st.borrow_mut();
                if !s.3 {
                    s.0 += 1;
                    let pair = &generated::PAIRS[c.pair];
                    *s.4.entry(format!("kind {}", pair.kind)).or_insert(0) += 1;
                    *s.4.entry(format!("context {}", c.ctx)).or_insert(0) += 1;
                    // non-trivial: early return / ? / panic path, async with >= 2 polls, formatted property, or a non-free shape
                    let log = rt::LOG.with(|l| l.borrow().clone());
                    let path = log.iter().any(|l| l.contains(":ret") || l.starts_with("fallible:err") || l.starts_with("maybe:none")) || log.iter().filter(|l| l.starts_with("poll#")).count() >= 2;
                    let nt = path || pair.nprops > 0 || pair.kind != "Free";
                    if log.iter().any(|l| l.contains(":ret")) {
                        *s.4.entry("path: early return".into()).or_insert(0) += 1;
                    }
                    if log.iter().any(|l| l.starts_with("fallible:err") || l.starts_with("maybe:none")) {
                        *s.4.entry("path: ? propagated".into()).or_insert(0) += 1;
                    }
                    if log.iter().filter(|l| l.starts_with("poll#")).count() >= 2 {
                        *s.4.entry("path: >=2 polls".into()).or_insert(0) += 1;
                    }
                    if nt {
                        use std::hash::{Hash, Hasher};
                        let mut h = std::collections::hash_map::DefaultHasher::new();
                        format!("{:?}", c).hash(&mut h);
                        if s.1.insert(h.finish()) && s.2.len() < 3 {
                            s.2.push(json!({"case": c, "spec": serde_json::from_str::<serde_json::Value>(pair.spec).unwrap()}));
                        }
                    }
                }
                if unknown.is_empty() {
                    Ok(())
                } else {
                    s.3 = true;
                    Err(TestCaseError::fail(unknown[0].sig.clone()))
                }
            });
            let s = st.into_inner();
            let mut failure = serde_json::Value::Null;
            if let Err(TestError::Fail(reason, c)) = &res {
                let viols = std::panic::catch_unwind(std::panic::AssertUnwindSafe(|| check(&sink, c, &mut uniq.borrow_mut())))
                    .unwrap_or_else(|_| vec![Viol { sig: reason.to_string(), msg: "a tracing call made around the annotated call panicked".into() }]);
                let pair = &generated::PAIRS[c.pair];
                failure = json!({"signature": reason.to_string(), "program": {"case": c, "spec": serde_json::from_str::<serde_json::Value>(pair.spec).unwrap()},
                    "violations": viols.iter().map(|v| json!({"sig": v.sig, "msg": v.msg})).collect::<Vec<_>>()});
            }
            let mut nt: Vec<u64> = s.1.iter().cloned().collect();
            nt.sort();
            let res = json!({
                "property": "C15", "variant": "macro", "cancelable": false, "seed": seed, "worker": wid,
                "evaluations": s.0, "nontrivial_hashes": nt.iter().map(|h| format!("{:016x}", h)).collect::<Vec<_>>(),
                "labels": s.4, "excluded": {}, "known_hits": {}, "samples": s.2,
                "records_delivered": 0, "ops_executed": s.0, "ops_skipped": 0, "failure": failure,
                "rule": "GENERATED RUST SOURCE: function pairs (annotated with #[fastrace::trace(..)] / plain, identical bodies) from a signature+body grammar (free fn, &self/&mut self/self methods, generic, lifetimes, impl Trait, async, async+enter_on_poll, async methods, async-trait; bodies with logs, arithmetic, early return, loops with break/return, ?, value-dependent panics, drop-logging guards, nested traced calls, &mut mutation, awaits; macro args name/short_name/enter_on_poll/properties with format strings and escapes), compiled against /repo/fastrace-macro, then called with generated arguments under generated tracing contexts; non-trivial = the call takes an early-return / ? / multi-poll path, or has properties, or is not a plain free function; distinct = hash of (pair, arguments, context)",
                "wall_s": start.elapsed().as_secs_f64(), "pairs_compiled": npairs,
            });
            std::fs::File::create(out).unwrap().write_all(serde_json::to_string(&res).unwrap().as_bytes()).unwrap();
        }
        Some("replay") => {
            // the crate was generated from the replay's spec (pair 0); run its case
            let file = arg(&args, "--file").expect("--file");
            let v: serde_json::Value = serde_json::from_str(&std::fs::read_to_string(file).unwrap()).unwrap();
            let mut c: Case = serde_json::from_value(v["program"]["case"].clone()).expect("case");
            c.pair = arg(&args, "--pair").map(|p| p.parse().unwrap()).unwrap_or(0);
            let mut uniq = 5000u64;
            let viols = check(&sink, &c, &mut uniq);
            println!("{}", serde_json::to_string_pretty(&json!({"violations": viols.iter().map(|v| json!({"sig": v.sig, "msg": v.msg})).collect::<Vec<_>>(), "narrative": []})).unwrap());
            std::process::exit(if viols.is_empty() { 0 } else { 1 });
        }
        _ => std::process::exit(2),
    }
}

//! Independent decoders / reference encoders for the reporter wire formats (C19, C20) and the
//! record model shared by the proptest worker and the libFuzzer target.

use serde::{Deserialize, Serialize};

#[derive(Clone, Debug, Serialize, Deserialize, PartialEq)]
pub struct Ev {
    pub name: String,
    pub ts: u64,
    pub props: Vec<(String, String)>,
}

#[derive(Clone, Debug, Serialize, Deserialize, PartialEq)]
pub struct Rec {
    pub trace_hi: u64,
    pub trace_lo: u64,
    pub span: u64,
    pub parent: u64,
    pub begin: u64,
    pub dur: u64,
    pub name: String,
    pub props: Vec<(String, String)>,
    pub events: Vec<Ev>,
}

impl Rec {
    pub fn trace(&self) -> u128 {
        ((self.trace_hi as u128) << 64) | self.trace_lo as u128
    }
    pub fn to_record(&self) -> fastrace::prelude::SpanRecord {
        use fastrace::collector::EventRecord;
        use fastrace::prelude::*;
        SpanRecord {
            trace_id: TraceId(self.trace()),
            span_id: SpanId(self.span),
            parent_id: SpanId(self.parent),
            begin_time_unix_ns: self.begin,
            duration_ns: self.dur,
            name: self.name.clone().into(),
            properties: self.props.iter().map(|(k, v)| (k.clone().into(), v.clone().into())).collect(),
            events: self
                .events
                .iter()
                .map(|e| EventRecord {
                    name: e.name.clone().into(),
                    timestamp_unix_ns: e.ts,
                    properties: e.props.iter().map(|(k, v)| (k.clone().into(), v.clone().into())).collect(),
                })
                .collect(),
        }
    }
}

// ------------------------------------------------------------------------------------------
// Thrift compact protocol: generic decoder (knows only the wire format)
// ------------------------------------------------------------------------------------------
#[derive(Clone, Debug, PartialEq)]
pub enum TVal {
    Bool(bool),
    Byte(i8),
    I16(i16),
    I32(i32),
    I64(i64),
    Double(f64),
    Binary(Vec<u8>),
    List(u8, Vec<TVal>),
    Struct(Vec<(i16, TVal)>),
}

pub struct TReader<'a> {
    pub b: &'a [u8],
    pub p: usize,
}

impl<'a> TReader<'a> {
    fn u8(&mut self) -> Result<u8, String> {
        let v = *self.b.get(self.p).ok_or("truncated")?;
        self.p += 1;
        Ok(v)
    }
    fn varint(&mut self) -> Result<u64, String> {
        let mut v = 0u64;
        let mut shift = 0;
        loop {
            let b = self.u8()?;
            v |= ((b & 0x7f) as u64) << shift;
            if b & 0x80 == 0 {
                return Ok(v);
            }
            shift += 7;
            if shift > 63 {
                return Err("varint too long".into());
            }
        }
    }
    fn zigzag(&mut self) -> Result<i64, String> {
        let v = self.varint()?;
        Ok(((v >> 1) as i64) ^ -((v & 1) as i64))
    }
    fn binary(&mut self) -> Result<Vec<u8>, String> {
        let n = self.varint()? as usize;
        if self.p + n > self.b.len() {
            return Err("binary exceeds buffer".into());
        }
        let v = self.b[self.p..self.p + n].to_vec();
        self.p += n;
        Ok(v)
    }
    fn value(&mut self, ty: u8, depth: u32) -> Result<TVal, String> {
        if depth > 16 {
            return Err("too deep".into());
        }
        Ok(match ty {
            1 => TVal::Bool(true),
            2 => TVal::Bool(false),
            3 => TVal::Byte(self.u8()? as i8),
            4 => TVal::I16(self.zigzag()? as i16),
            5 => TVal::I32(self.zigzag()? as i32),
            6 => TVal::I64(self.zigzag()?),
            7 => {
                let mut a = [0u8; 8];
                for x in a.iter_mut() {
                    *x = self.u8()?;
                }
                TVal::Double(f64::from_le_bytes(a))
            }
            8 => TVal::Binary(self.binary()?),
            9 | 10 => {
                let h = self.u8()?;
                let et = h & 0x0f;
                let mut n = (h >> 4) as usize;
                if n == 15 {
                    n = self.varint()? as usize;
                }
                let mut v = Vec::new();
                for _ in 0..n {
                    let x = if et == 1 || et == 2 {
                        // booleans inside collections are one byte each
                        TVal::Bool(self.u8()? == 1)
                    } else {
                        self.value(et, depth + 1)?
                    };
                    v.push(x);
                }
                TVal::List(et, v)
            }
            12 => {
                let mut fields = Vec::new();
                let mut last: i16 = 0;
                loop {
                    let h = self.u8()?;
                    if h == 0 {
                        break;
                    }
                    let delta = h >> 4;
                    let fty = h & 0x0f;
                    let id = if delta == 0 { self.zigzag()? as i16 } else { last + delta as i16 };
                    last = id;
                    fields.push((id, self.value(fty, depth + 1)?));
                }
                TVal::Struct(fields)
            }
            t => return Err(format!("unknown compact type {}", t)),
        })
    }
}

/// (method name, message type, seq id, args struct); errors on trailing bytes
pub fn thrift_message(b: &[u8]) -> Result<(String, u8, u64, TVal), String> {
    let mut r = TReader { b, p: 0 };
    if r.u8()? != 0x82 {
        return Err("protocol id is not 0x82".into());
    }
    let vt = r.u8()?;
    if vt & 0x1f != 1 {
        return Err("compact protocol version is not 1".into());
    }
    let mtype = vt >> 5;
    let seq = r.varint()?;
    let name = String::from_utf8(r.binary()?).map_err(|_| "method name not utf8")?;
    let args = r.value(12, 0)?;
    if r.p != b.len() {
        return Err(format!("{} trailing bytes after the message", b.len() - r.p));
    }
    Ok((name, mtype, seq, args))
}

// ------------------------------------------------------------------------------------------
// Thrift compact protocol: reference encoder for the expected jaeger emitBatch message
// ------------------------------------------------------------------------------------------
pub struct TWriter {
    pub b: Vec<u8>,
}
impl TWriter {
    fn varint(&mut self, mut v: u64) {
        loop {
            let mut x = (v & 0x7f) as u8;
            v >>= 7;
            if v != 0 {
                x |= 0x80;
            }
            self.b.push(x);
            if v == 0 {
                break;
            }
        }
    }
    fn zz(&mut self, v: i64) {
        self.varint(((v << 1) ^ (v >> 63)) as u64)
    }
    fn string(&mut self, s: &str) {
        self.varint(s.len() as u64);
        self.b.extend_from_slice(s.as_bytes());
    }
    /// field header with delta encoding; returns the new "last id"
    fn field(&mut self, last: &mut i16, id: i16, ty: u8) {
        let delta = id - *last;
        if delta > 0 && delta <= 15 {
            self.b.push(((delta as u8) << 4) | ty);
        } else {
            self.b.push(ty);
            self.zz(id as i64);
        }
        *last = id;
    }
    fn list_header(&mut self, n: usize, ty: u8) {
        if n < 15 {
            self.b.push(((n as u8) << 4) | ty);
        } else {
            self.b.push(0xf0 | ty);
            self.varint(n as u64);
        }
    }
    fn tag(&mut self, k: &str, v: &str) {
        let mut l = 0i16;
        self.field(&mut l, 1, 8);
        self.string(k);
        self.field(&mut l, 2, 5);
        self.zz(0); // vType STRING
        self.field(&mut l, 3, 8);
        self.string(v);
        self.b.push(0);
    }
    fn span(&mut self, r: &Rec) {
        let mut l = 0i16;
        self.field(&mut l, 1, 6);
        self.zz(r.trace_lo as i64);
        self.field(&mut l, 2, 6);
        self.zz(r.trace_hi as i64);
        self.field(&mut l, 3, 6);
        self.zz(r.span as i64);
        self.field(&mut l, 4, 6);
        self.zz(r.parent as i64);
        self.field(&mut l, 5, 8);
        self.string(&r.name);
        self.field(&mut l, 7, 5);
        self.zz(1);
        self.field(&mut l, 8, 6);
        self.zz((r.begin / 1000) as i64);
        self.field(&mut l, 9, 6);
        self.zz((r.dur / 1000) as i64);
        if !r.props.is_empty() {
            self.field(&mut l, 10, 9);
            self.list_header(r.props.len(), 12);
            for (k, v) in &r.props {
                self.tag(k, v);
            }
        }
        if !r.events.is_empty() {
            self.field(&mut l, 11, 9);
            self.list_header(r.events.len(), 12);
            for e in &r.events {
                let mut l2 = 0i16;
                self.field(&mut l2, 1, 6);
                self.zz((e.ts / 1000) as i64);
                self.field(&mut l2, 2, 9);
                self.list_header(e.props.len() + 1, 12);
                self.tag("name", &e.name);
                for (k, v) in &e.props {
                    self.tag(k, v);
                }
                self.b.push(0);
            }
        }
        self.b.push(0);
    }
}

/// reference encoding of `emitBatch(Batch{process{service}, spans})`
pub fn reference_emit_batch(service: &str, recs: &[Rec]) -> Vec<u8> {
    let mut w = TWriter { b: vec![] };
    w.b.push(0x82);
    w.b.push((4 << 5) | 1); // oneway, version 1
    w.varint(0);
    w.string("emitBatch");
    let mut l = 0i16;
    w.field(&mut l, 1, 12); // args.batch
    {
        let mut lb = 0i16;
        w.field(&mut lb, 1, 12); // process
        {
            let mut lp = 0i16;
            w.field(&mut lp, 1, 8);
            w.string(service);
            w.b.push(0);
        }
        w.field(&mut lb, 2, 9);
        w.list_header(recs.len(), 12);
        for r in recs {
            w.span(r);
        }
        w.b.push(0);
    }
    w.b.push(0);
    w.b
}

// ------------------------------------------------------------------------------------------
// msgpack: generic decoder
// ------------------------------------------------------------------------------------------
#[derive(Clone, Debug, PartialEq)]
pub enum MVal {
    Nil,
    Bool(bool),
    Int(i128),
    F(f64),
    Str(String),
    Bin(Vec<u8>),
    Arr(Vec<MVal>),
    Map(Vec<(MVal, MVal)>),
}

pub struct MReader<'a> {
    pub b: &'a [u8],
    pub p: usize,
}
impl<'a> MReader<'a> {
    fn take(&mut self, n: usize) -> Result<&'a [u8], String> {
        if self.p + n > self.b.len() {
            return Err("truncated msgpack".into());
        }
        let s = &self.b[self.p..self.p + n];
        self.p += n;
        Ok(s)
    }
    fn be(&mut self, n: usize) -> Result<u64, String> {
        let s = self.take(n)?;
        Ok(s.iter().fold(0u64, |a, b| (a << 8) | *b as u64))
    }
    fn str_(&mut self, n: usize) -> Result<MVal, String> {
        let s = self.take(n)?;
        Ok(MVal::Str(String::from_utf8(s.to_vec()).map_err(|_| "msgpack str is not utf8")?))
    }
    fn arr(&mut self, n: usize, d: u32) -> Result<MVal, String> {
        let mut v = Vec::new();
        for _ in 0..n {
            v.push(self.value(d + 1)?);
        }
        Ok(MVal::Arr(v))
    }
    fn map(&mut self, n: usize, d: u32) -> Result<MVal, String> {
        let mut v = Vec::new();
        for _ in 0..n {
            let k = self.value(d + 1)?;
            let x = self.value(d + 1)?;
            v.push((k, x));
        }
        Ok(MVal::Map(v))
    }
    pub fn value(&mut self, d: u32) -> Result<MVal, String> {
        if d > 16 {
            return Err("too deep".into());
        }
        let t = self.take(1)?[0];
        Ok(match t {
            0x00..=0x7f => MVal::Int(t as i128),
            0x80..=0x8f => self.map((t & 0x0f) as usize, d)?,
            0x90..=0x9f => self.arr((t & 0x0f) as usize, d)?,
            0xa0..=0xbf => self.str_((t & 0x1f) as usize)?,
            0xc0 => MVal::Nil,
            0xc2 => MVal::Bool(false),
            0xc3 => MVal::Bool(true),
            0xc4 => {
                let n = self.be(1)? as usize;
                MVal::Bin(self.take(n)?.to_vec())
            }
            0xc5 => {
                let n = self.be(2)? as usize;
                MVal::Bin(self.take(n)?.to_vec())
            }
            0xc6 => {
                let n = self.be(4)? as usize;
                MVal::Bin(self.take(n)?.to_vec())
            }
            0xca => MVal::F(f32::from_bits(self.be(4)? as u32) as f64),
            0xcb => MVal::F(f64::from_bits(self.be(8)?)),
            0xcc => MVal::Int(self.be(1)? as i128),
            0xcd => MVal::Int(self.be(2)? as i128),
            0xce => MVal::Int(self.be(4)? as i128),
            0xcf => MVal::Int(self.be(8)? as i128),
            0xd0 => MVal::Int(self.be(1)? as u8 as i8 as i128),
            0xd1 => MVal::Int(self.be(2)? as u16 as i16 as i128),
            0xd2 => MVal::Int(self.be(4)? as u32 as i32 as i128),
            0xd3 => MVal::Int(self.be(8)? as i64 as i128),
            0xd9 => {
                let n = self.be(1)? as usize;
                self.str_(n)?
            }
            0xda => {
                let n = self.be(2)? as usize;
                self.str_(n)?
            }
            0xdb => {
                let n = self.be(4)? as usize;
                self.str_(n)?
            }
            0xdc => {
                let n = self.be(2)? as usize;
                self.arr(n, d)?
            }
            0xdd => {
                let n = self.be(4)? as usize;
                self.arr(n, d)?
            }
            0xde => {
                let n = self.be(2)? as usize;
                self.map(n, d)?
            }
            0xdf => {
                let n = self.be(4)? as usize;
                self.map(n, d)?
            }
            0xe0..=0xff => MVal::Int(t as i8 as i128),
            _ => return Err(format!("unsupported msgpack type byte {:#x}", t)),
        })
    }
}

pub fn msgpack_document(b: &[u8]) -> Result<MVal, String> {
    let mut r = MReader { b, p: 0 };
    let v = r.value(0)?;
    if r.p != b.len() {
        return Err(format!("{} trailing bytes after the msgpack document", b.len() - r.p));
    }
    Ok(v)
}

#[derive(Clone, Debug)]
pub struct Viol {
    pub sig: String,
    pub msg: String,
}
pub fn v(sig: impl Into<String>, msg: impl Into<String>) -> Viol {
    Viol { sig: sig.into(), msg: msg.into() }
}

// ------------------------------------------------------------------------------------------
// Jaeger: decode datagrams into spans and compare with the records
// ------------------------------------------------------------------------------------------
fn field<'a>(s: &'a [(i16, TVal)], id: i16) -> Option<&'a TVal> {
    s.iter().find(|(i, _)| *i == id).map(|(_, v)| v)
}
fn as_i64(v: Option<&TVal>) -> Option<i64> {
    match v {
        Some(TVal::I64(x)) => Some(*x),
        _ => None,
    }
}
fn as_str(v: Option<&TVal>) -> Option<String> {
    match v {
        Some(TVal::Binary(b)) => String::from_utf8(b.clone()).ok(),
        _ => None,
    }
}
fn tags(v: Option<&TVal>) -> Result<Vec<(String, String)>, String> {
    let mut out = vec![];
    match v {
        None => {}
        Some(TVal::List(12, items)) => {
            for it in items {
                let TVal::Struct(f) = it else { return Err("tag is not a struct".into()) };
                let k = as_str(field(f, 1)).ok_or("tag without key")?;
                match field(f, 2) {
                    Some(TVal::I32(0)) => {}
                    other => return Err(format!("tag {:?} has vType {:?}, expected STRING(0)", k, other)),
                }
                let val = as_str(field(f, 3)).ok_or("string tag without vStr")?;
                if f.len() != 3 {
                    return Err(format!("tag {:?} has unexpected extra fields", k));
                }
                out.push((k, val));
            }
        }
        Some(o) => return Err(format!("tags field is {:?}", o)),
    }
    Ok(out)
}

/// decode one datagram: (service name, spans as Rec in microsecond units)
pub fn jaeger_datagram(b: &[u8]) -> Result<(String, Vec<Rec>), String> {
    let (name, mtype, _seq, args) = thrift_message(b)?;
    if name != "emitBatch" {
        return Err(format!("method {:?}, expected emitBatch", name));
    }
    if mtype != 4 {
        return Err(format!("message type {}, expected oneway(4)", mtype));
    }
    let TVal::Struct(a) = args else { return Err("args not a struct".into()) };
    let Some(TVal::Struct(batch)) = field(&a, 1) else { return Err("no batch argument".into()) };
    let Some(TVal::Struct(process)) = field(batch, 1) else { return Err("batch without process".into()) };
    let service = as_str(field(process, 1)).ok_or("process without serviceName")?;
    let Some(TVal::List(12, spans)) = field(batch, 2) else { return Err("batch without span list".into()) };
    let mut out = vec![];
    for sp in spans {
        let TVal::Struct(f) = sp else { return Err("span is not a struct".into()) };
        let lo = as_i64(field(f, 1)).ok_or("span without traceIdLow")?;
        let hi = as_i64(field(f, 2)).ok_or("span without traceIdHigh")?;
        let span = as_i64(field(f, 3)).ok_or("span without spanId")?;
        let parent = as_i64(field(f, 4)).ok_or("span without parentSpanId")?;
        let name = as_str(field(f, 5)).ok_or("span without operationName")?;
        match field(f, 7) {
            Some(TVal::I32(_)) => {}
            _ => return Err("span without flags".into()),
        }
        let start = as_i64(field(f, 8)).ok_or("span without startTime")?;
        let dur = as_i64(field(f, 9)).ok_or("span without duration")?;
        let props = tags(field(f, 10))?;
        let mut events = vec![];
        match field(f, 11) {
            None => {}
            Some(TVal::List(12, logs)) => {
                for lg in logs {
                    let TVal::Struct(lf) = lg else { return Err("log is not a struct".into()) };
                    let ts = as_i64(field(lf, 1)).ok_or("log without timestamp")?;
                    let mut fields = tags(field(lf, 2))?;
                    if fields.is_empty() || fields[0].0 != "name" {
                        return Err("log fields do not start with the event name".into());
                    }
                    let (_, ename) = fields.remove(0);
                    events.push(Ev { name: ename, ts: ts as u64, props: fields });
                }
            }
            Some(o) => return Err(format!("logs field is {:?}", o)),
        }
        out.push(Rec { trace_hi: hi as u64, trace_lo: lo as u64, span: span as u64, parent: parent as u64, begin: start as u64, dur: dur as u64, name, props, events });
    }
    Ok((service, out))
}

/// what the record must look like in jaeger units
pub fn jaeger_expected(r: &Rec) -> Rec {
    Rec {
        begin: r.begin / 1000,
        dur: r.dur / 1000,
        events: r.events.iter().map(|e| Ev { name: e.name.clone(), ts: e.ts / 1000, props: e.props.clone() }).collect(),
        ..r.clone()
    }
}

pub const UDP_LIMIT: usize = 8000;
static TIMED_OUT: std::sync::atomic::AtomicBool = std::sync::atomic::AtomicBool::new(false);

/// C19+C20 oracle for the datagrams of ONE report() call
pub fn check_jaeger(service: &str, batch: &[Rec], datagrams: &[Vec<u8>], prop: &str) -> Vec<Viol> {
    check_jaeger_with(service, batch, datagrams, prop, &|_| None)
}

/// `alone(i)`: for a record whose reference size is within 10 bytes of the limit, whether a fresh
/// reporter transmits it when it is reported alone (the metamorphic reading of "fits alone");
/// None = not determined, the record is then exempt
pub fn check_jaeger_with(service: &str, batch: &[Rec], datagrams: &[Vec<u8>], prop: &str, alone: &dyn Fn(usize) -> Option<bool>) -> Vec<Viol> {
    let mut out = vec![];
    let mut got: Vec<Rec> = vec![];
    for (i, d) in datagrams.iter().enumerate() {
        if d.len() >= UDP_LIMIT {
            out.push(v("datagram-too-large", format!("datagram {} has {} bytes (limit: smaller than {})", i, d.len(), UDP_LIMIT)));
        }
        match jaeger_datagram(d) {
            Ok((svc, spans)) => {
                if svc != service {
                    out.push(v("service-name", format!("datagram {} carries service name {:?}, expected {:?}", i, svc, service)));
                }
                if spans.is_empty() {
                    out.push(v("empty-datagram", format!("datagram {} carries no span", i)));
                }
                got.extend(spans);
            }
            Err(e) => out.push(v("malformed-thrift", format!("datagram {} ({} bytes) is not a well-formed emitBatch: {}", i, d.len(), e))),
        }
    }
    if datagrams.len() > batch.len() {
        out.push(v("too-many-datagrams", format!("{} datagrams for {} records", datagrams.len(), batch.len())));
    }
    // which records fit alone (reference encoder); +-10 bytes around the limit are undecided
    let mut gi = 0usize;
    for (i, r) in batch.iter().enumerate() {
        let size = reference_emit_batch(service, std::slice::from_ref(r)).len();
        let exp = jaeger_expected(r);
        let here = got.get(gi) == Some(&exp);
        let zone = size + 10 >= UDP_LIMIT && size < UDP_LIMIT + 10;
        let verdict = if zone { alone(i) } else { None };
        if size + 10 < UDP_LIMIT || verdict == Some(true) {
            if here {
                gi += 1;
            } else {
                // classify: missing, or content differs
                let sig = match got.get(gi) {
                    Some(g) if g.span == exp.span && g.name == exp.name => {
                        let what = if g.trace_hi != exp.trace_hi || g.trace_lo != exp.trace_lo {
                            "trace-id"
                        } else if g.parent != exp.parent {
                            "parent-id"
                        } else if g.begin != exp.begin {
                            "start-time"
                        } else if g.dur != exp.dur {
                            "duration"
                        } else if g.props != exp.props {
                            "tags"
                        } else {
                            "logs"
                        };
                        gi += 1;
                        format!("span-content:{}", what)
                    }
                    _ => {
                        if prop == "C20" || batch.len() > 1 {
                            "span-missing-or-misordered".to_string()
                        } else {
                            "span-missing".to_string()
                        }
                    }
                };
                out.push(v(sig, format!("record {} ({:?}, single-span datagram {} bytes) is not transmitted correctly at its position: got {:?}", i, r.name.chars().take(20).collect::<String>(), size, got.get(gi.saturating_sub(1)).map(|g| (&g.name, g.span, g.parent, g.begin, g.dur)))));
                if out.len() > 6 {
                    break;
                }
            }
        } else if size >= UDP_LIMIT + 10 || verdict == Some(false) {
            if here {
                out.push(v("oversize-span-sent", format!("record {} needs {} bytes alone but was transmitted", i, size)));
                gi += 1;
            }
        } else if here {
            gi += 1; // undecided zone
        }
    }
    if gi < got.len() && out.is_empty() {
        out.push(v("extra-spans", format!("{} transmitted spans correspond to no record (duplicates or inventions)", got.len() - gi)));
    }
    out
}

// ------------------------------------------------------------------------------------------
// C20 size plans and the loopback UDP harness (shared with the libFuzzer target)
// ------------------------------------------------------------------------------------------
use std::net::UdpSocket;
use std::sync::mpsc::channel;
use std::time::Duration;
use fastrace::collector::Reporter;

/// C20 size plan: each entry = (kind, fine tuning); realised by padding one property value
#[derive(Clone, Debug, serde::Serialize, serde::Deserialize)]
pub struct Plan {
    pub items: Vec<(u8, u16)>,
    pub straddle: i8,
    /// how the records are spread over traces: 0 = every record its own trace; k >= 1 = k traces
    /// whose records are interleaved (what a collector cycle with several live traces hands over)
    #[serde(default)]
    pub traces: u8,
}

pub const SERVICE: &str = "verif-svc";

thread_local! {
    /// constructor arguments of the reporters for the case being run (set by the worker)
    static CFG: std::cell::RefCell<RepCfg> = std::cell::RefCell::new(RepCfg::default());
}

/// Constructor arguments of the three reporters: part of the generated case.
#[derive(Clone, Debug, PartialEq, serde::Serialize, serde::Deserialize)]
pub struct RepCfg {
    /// Jaeger service name / Datadog service / OpenTelemetry resource service name
    pub service: String,
    pub resource: String,
    pub ty: String,
    /// OpenTelemetry span kind: 0 client, 1 server, 2 producer, 3 consumer, 4 internal
    pub kind: u8,
    pub scope: String,
}

impl Default for RepCfg {
    fn default() -> Self {
        RepCfg { service: SERVICE.to_string(), resource: "res".into(), ty: "web".into(), kind: 1, scope: "verif-scope".into() }
    }
}

pub fn set_cfg(c: &RepCfg) {
    CFG.with(|x| *x.borrow_mut() = c.clone());
}

pub fn cfg() -> RepCfg {
    CFG.with(|x| x.borrow().clone())
}

fn service() -> String {
    CFG.with(|x| x.borrow().service.clone())
}

pub fn realise(plan: &Plan) -> Vec<Rec> {
    let mut out = Vec::new();
    for (i, (kind, fine)) in plan.items.iter().enumerate() {
        let mut r = Rec {
            trace_hi: 7,
            trace_lo: if plan.traces == 0 { i as u64 + 1 } else { 1 + (i as u64 * 7 + (*fine as u64 >> 9)) % plan.traces as u64 },
            // span ids repeat across traces (one span recorded under parents in several traces is
            // reported once per trace with the same span id): every 8th record shares the id of
            // the record before it
            span: ((if (fine >> 5) % 8 == 0 && i > 0 { i as u64 } else { i as u64 + 1 }) | if fine & 1 == 1 && (fine >> 5) % 8 != 0 { 1 << 63 } else { 0 }),
            parent: *fine as u64,
            begin: 1_700_000_000_000_000_000 + i as u64 * 1000,
            dur: 1000 + *fine as u64,
            // span names: mostly short, some long, some long with multi-byte characters at
            // every alignment (sizes are steered by the padding below, whatever the name is)
            name: match (fine >> 1) % 8 {
                4 => format!("{}-s{}", "long-operation-name/".repeat(1 + (*fine as usize >> 4) % 9), i),
                5 => format!("{}{}", "操作名称跨度".repeat(4 + (*fine as usize >> 4) % 8), i),
                6 => format!("{}{}{}", "x".repeat((*fine as usize >> 4) % 4), "é".repeat(40), i),
                7 => format!("{}🦀{}", "𝔘ñ€".repeat(3 + (*fine as usize >> 4) % 20), i),
                _ => format!("s{}", i),
            },
            props: vec![("pad".to_string(), String::new())],
            events: vec![],
        };
        let target = match kind {
            0 => 0usize,
            1 => 1000 + (*fine as usize % 2000),
            2 => 7900 + (*fine as usize % 200),
            _ => 8100 + (*fine as usize % 32000),
        };
        if target > 0 {
            // pad until the single-span datagram has exactly `target` bytes
            let base = reference_emit_batch(&service(), std::slice::from_ref(&r)).len();
            let mut pad = target.saturating_sub(base);
            for _ in 0..4 {
                r.props[0].1 = "p".repeat(pad);
                let sz = reference_emit_batch(&service(), std::slice::from_ref(&r)).len();
                if sz == target {
                    break;
                }
                pad = (pad as i64 + target as i64 - sz as i64).max(0) as usize;
            }
            r.props[0].1 = "p".repeat(pad);
        }
        out.push(r);
    }
    // kind 4 entries are tiny; when the plan contains one, the batch total is steered onto the limit
    // make the whole batch straddle the limit by a few bytes when it is small enough
    let total = reference_emit_batch(&service(), &out).len();
    if total < UDP_LIMIT && total > 4000 {
        let want = (UDP_LIMIT as i64 + plan.straddle as i64) as usize;
        if want > total {
            let extra = want - total;
            if let Some(r) = out.iter_mut().find(|r| r.props[0].1.len() < 3000) {
                r.props[0].1.push_str(&"q".repeat(extra));
            }
        }
    }
    out
}

pub struct UdpSink {
    pub sock: UdpSocket,
    pub port: u16,
}

impl UdpSink {
    pub fn new() -> Self {
        let sock = UdpSocket::bind("127.0.0.1:0").unwrap();
        // enlarge the receive buffer (max 4 MB in this sandbox)
        unsafe {
            use std::os::fd::AsRawFd;
            let sz: libc::c_int = 4 * 1024 * 1024;
            libc::setsockopt(sock.as_raw_fd(), libc::SOL_SOCKET, libc::SO_RCVBUF, &sz as *const _ as *const libc::c_void, std::mem::size_of::<libc::c_int>() as u32);
        }
        sock.set_read_timeout(Some(Duration::from_secs(10))).unwrap();
        let port = sock.local_addr().unwrap().port();
        UdpSink { sock, port }
    }
    pub fn on_port(port: u16) -> Option<Self> {
        let sock = UdpSocket::bind(("127.0.0.1", port)).ok()?;
        unsafe {
            use std::os::fd::AsRawFd;
            let sz: libc::c_int = 4 * 1024 * 1024;
            libc::setsockopt(sock.as_raw_fd(), libc::SOL_SOCKET, libc::SO_RCVBUF, &sz as *const _ as *const libc::c_void, std::mem::size_of::<libc::c_int>() as u32);
        }
        sock.set_read_timeout(Some(Duration::from_secs(10))).ok()?;
        Some(UdpSink { sock, port })
    }
    pub fn drops(&self) -> u64 {
        // /proc/net/udp: last column = drops, local_address column = hex ip:port
        let want = format!(":{:04X}", self.port);
        std::fs::read_to_string("/proc/net/udp")
            .ok()
            .and_then(|s| {
                s.lines().skip(1).find(|l| l.split_whitespace().nth(1).map_or(false, |a| a.ends_with(&want))).and_then(|l| l.split_whitespace().last().and_then(|d| d.parse().ok()))
            })
            .unwrap_or(0)
    }
}

/// run `f` (which makes the reporter send) while a reader thread collects datagrams until the
/// sentinel that is sent after `f` returned. Err = inconclusive (kernel dropped datagrams).
pub fn capture_udp(sink: &UdpSink, f: impl FnOnce()) -> Result<Vec<Vec<u8>>, String> {
    let drops0 = sink.drops();
    let reader = sink.sock.try_clone().unwrap();
    let h = std::thread::spawn(move || {
        let mut out: Vec<Vec<u8>> = Vec::new();
        let mut buf = vec![0u8; 70000];
        loop {
            // a reporter that never stops sending (report() did not return) must not keep us here
            if TIMED_OUT.load(std::sync::atomic::Ordering::SeqCst) || out.len() > 200_000 {
                return Ok(out);
            }
            match reader.recv_from(&mut buf) {
                Ok((n, _)) => {
                    if &buf[..n] == b"__SENTINEL__" {
                        return Ok(out);
                    }
                    out.push(buf[..n].to_vec());
                }
                Err(e) => return Err(format!("udp receive: {}", e)),
            }
        }
    });
    f();
    let s = UdpSocket::bind("127.0.0.1:0").unwrap();
    s.send_to(b"__SENTINEL__", ("127.0.0.1", sink.port)).unwrap();
    let r = h.join().map_err(|_| "reader panicked".to_string())??;
    if sink.drops() != drops0 {
        return Err("kernel dropped datagrams on the loopback socket".into());
    }
    Ok(r)
}

pub enum Outcome {
    Viols(Vec<Viol>),
    Inconclusive(String),
}

fn panic_text(p: &Box<dyn std::any::Any + Send>) -> String {
    if let Some(s) = p.downcast_ref::<&str>() {
        s.to_string()
    } else if let Some(s) = p.downcast_ref::<String>() {
        s.clone()
    } else {
        "<non-string panic payload>".to_string()
    }
}

pub fn run_jaeger(udp: &UdpSink, batch: &[Rec], prop: &str) -> Outcome {
    run_jaeger_seq(udp, &[], batch, prop)
}

/// `prior`: batches reported through the same reporter object before the batch that is checked
/// (a reporter lives as long as the process and sees every batch of the collector)
pub fn run_jaeger_seq(udp: &UdpSink, prior: &[Vec<Rec>], batch: &[Rec], prop: &str) -> Outcome {
    run_jaeger_from(udp, None, prior, batch, prop)
}

/// The agent is not listening when the reporter is created and while the `prior` batches (at
/// least one small batch) are reported; then it comes up on the same port and the checked batch
/// is reported: it must arrive completely, whatever happened to the earlier ones.
pub fn run_jaeger_late_agent(prior: &[Vec<Rec>], batch: &[Rec], prop: &str) -> Outcome {
    if TIMED_OUT.load(std::sync::atomic::Ordering::SeqCst) {
        return Outcome::Viols(vec![v("report-did-not-return", "an earlier JaegerReporter::report call of this process did not return within 30 s")]);
    }
    let port = {
        let probe = UdpSocket::bind("127.0.0.1:0").unwrap();
        probe.local_addr().unwrap().port()
    };
    let addr = format!("127.0.0.1:{}", port).parse().unwrap();
    let mut rep = match fastrace_jaeger::JaegerReporter::new(addr, service()) {
        Ok(r) => r,
        Err(e) => return Outcome::Inconclusive(format!("reporter construction failed: {}", e)),
    };
    let filler = vec![vec![Rec { trace_hi: 1, trace_lo: 1, span: 1, parent: 0, begin: 1, dur: 1, name: "while-agent-down".into(), props: vec![], events: vec![] }]];
    let down: &[Vec<Rec>] = if prior.is_empty() { &filler } else { prior };
    for pb in down {
        let records: Vec<_> = pb.iter().map(|r| r.to_record()).collect();
        let (tx, rx) = channel();
        let h = std::thread::spawn(move || {
            rep.report(records);
            let _ = tx.send(());
            rep
        });
        match rx.recv_timeout(Duration::from_secs(30)) {
            Err(std::sync::mpsc::RecvTimeoutError::Timeout) => {
                TIMED_OUT.store(true, std::sync::atomic::Ordering::SeqCst);
                std::mem::forget(h);
                return Outcome::Viols(vec![v("report-did-not-return", "JaegerReporter::report did not return within 30 s while the agent was not listening".to_string())]);
            }
            _ => match h.join() {
                Ok(r) => rep = r,
                Err(p) => return Outcome::Viols(vec![v("report-panicked", format!("JaegerReporter::report panicked while the agent was not listening: {}", panic_text(&p)))]),
            },
        }
    }
    std::thread::sleep(Duration::from_millis(3));
    let Some(sink) = UdpSink::on_port(port) else {
        return Outcome::Inconclusive("the port of the late agent was taken meanwhile".into());
    };
    run_jaeger_from(&sink, Some(rep), &[], batch, prop)
}

fn run_jaeger_from(udp: &UdpSink, pre: Option<fastrace_jaeger::JaegerReporter>, prior: &[Vec<Rec>], batch: &[Rec], prop: &str) -> Outcome {
    if TIMED_OUT.load(std::sync::atomic::Ordering::SeqCst) {
        // a previous report() call of this process never returned: its thread is still sending,
        // nothing measured from now on would be meaningful (and shrinking must not wait 30 s per step)
        return Outcome::Viols(vec![v("report-did-not-return", "an earlier JaegerReporter::report call of this process did not return within 30 s")]);
    }
    let addr = format!("127.0.0.1:{}", udp.port).parse().unwrap();
    let mut rep = match pre {
        Some(r) => r,
        None => fastrace_jaeger::JaegerReporter::new(addr, service()).unwrap(),
    };
    // earlier batches: the calls must terminate too; their datagrams are drained, not checked
    for (k, pb) in prior.iter().enumerate() {
        let records: Vec<_> = pb.iter().map(|r| r.to_record()).collect();
        let (tx, rx) = channel();
        let mut back = None;
        let _ = capture_udp(udp, || {
            let h = std::thread::spawn(move || {
                rep.report(records);
                let _ = tx.send(());
                rep
            });
            match rx.recv_timeout(Duration::from_secs(30)) {
                Err(std::sync::mpsc::RecvTimeoutError::Timeout) => {
                    TIMED_OUT.store(true, std::sync::atomic::Ordering::SeqCst);
                    std::mem::forget(h);
                }
                // sent, or the sender was dropped by a panic inside report()
                _ => back = Some(h.join()),
            }
        });
        match back {
            Some(Ok(r)) => rep = r,
            Some(Err(p)) => {
                return Outcome::Viols(vec![v("report-panicked", format!("JaegerReporter::report panicked for earlier batch #{} ({} records) of the same reporter: {}", k, pb.len(), panic_text(&p)))]);
            }
            None => {
                return Outcome::Viols(vec![v("report-did-not-return", format!("JaegerReporter::report did not return within 30 s for earlier batch #{} ({} records) of the same reporter", k, pb.len()))]);
            }
        }
    }
    let records: Vec<_> = batch.iter().map(|r| r.to_record()).collect();
    // the call must terminate: run it on a helper thread with a deadline
    let (tx, rx) = channel();
    let mut panicked: Option<String> = None;
    let res = capture_udp(udp, || {
        let h = std::thread::spawn(move || {
            rep.report(records);
            let _ = tx.send(());
        });
        match rx.recv_timeout(Duration::from_secs(30)) {
            Err(std::sync::mpsc::RecvTimeoutError::Timeout) => {
                // leave the thread behind; reported below
                TIMED_OUT.store(true, std::sync::atomic::Ordering::SeqCst);
                std::mem::forget(h);
            }
            _ => {
                if let Err(p) = h.join() {
                    panicked = Some(panic_text(&p));
                }
            }
        }
    });
    if let Some(msg) = panicked {
        return Outcome::Viols(vec![v("report-panicked", format!("JaegerReporter::report panicked for a batch of {} records (after {} earlier batches on the same reporter): {}", batch.len(), prior.len(), msg))]);
    }
    if TIMED_OUT.load(std::sync::atomic::Ordering::SeqCst) {
        // the call must terminate; 30 s for one batch of at most a few hundred records on
        // loopback is three orders of magnitude above the normal time. The process is not
        // reusable afterwards (the reporter thread keeps running), so stop here.
        return Outcome::Viols(vec![v("report-did-not-return", format!("JaegerReporter::report did not return within 30 s for a batch of {} records (after {} earlier batches on the same reporter)", batch.len(), prior.len()))]);
    }
    match res {
        Err(e) => Outcome::Inconclusive(e),
        Ok(dgrams) => {
            // records within 10 bytes of the limit: "fits alone" is what a fresh reporter does
            // with the record alone
            let mut alone_map: std::collections::HashMap<usize, bool> = std::collections::HashMap::new();
            if batch.len() > 1 {
                for (i, r) in batch.iter().enumerate() {
                    let size = reference_emit_batch(&service(), std::slice::from_ref(r)).len();
                    if size + 10 >= UDP_LIMIT && size < UDP_LIMIT + 10 && alone_map.len() < 40 {
                        let mut fresh = fastrace_jaeger::JaegerReporter::new(addr, service()).unwrap();
                        let rec = vec![r.to_record()];
                        if let Ok(d) = capture_udp(udp, move || fresh.report(rec)) {
                            alone_map.insert(i, !d.is_empty());
                        }
                    }
                }
            }
            let mut vs = check_jaeger_with(&service(), batch, &dgrams, prop, &|i| alone_map.get(&i).copied());
            // validate the reference encoder against the real single-span datagrams
            if batch.len() == 1 && dgrams.len() == 1 {
                let refb = reference_emit_batch(&service(), batch);
                if refb != dgrams[0] && vs.is_empty() {
                    return Outcome::Inconclusive(format!("harness: reference encoder disagrees with the real datagram ({} vs {} bytes)", refb.len(), dgrams[0].len()));
                }
            }
            vs.truncate(8);
            Outcome::Viols(vs)
        }
    }
}

/// decode fuzzer bytes into a size plan (shared with the libFuzzer target through `fuzzplan`)
pub fn plan_from_bytes(b: &[u8]) -> Plan {
    let mut items = vec![];
    let mut i = 1;
    while i + 2 < b.len() && items.len() < 200 {
        items.push((b[i] % 4, u16::from_le_bytes([b[i + 1], b[i + 2]])));
        i += 3;
    }
    if items.is_empty() {
        items.push((0, 0));
    }
    Plan { items, straddle: b.first().map(|x| (*x as i8) / 6).unwrap_or(0), traces: b.first().map(|x| (*x % 6).saturating_sub(2)).unwrap_or(0) }
}


/// one libFuzzer input: bytes -> size plan -> real reporter -> loopback -> oracle
pub fn fuzz_one(udp: &UdpSink, bytes: &[u8]) -> Outcome {
    let plan = plan_from_bytes(bytes);
    run_jaeger(udp, &realise(&plan), "C20")
}

use std::collections::{BTreeMap, HashSet};
use std::io::Write;
use std::sync::mpsc::{channel, Receiver};
use std::sync::{Arc, Mutex};
use std::time::{Duration, SystemTime};

use fastrace::collector::Reporter;
use fr_reporters::*;
use proptest::prelude::*;
use proptest::test_runner::{Config, RngAlgorithm, TestCaseError, TestError, TestRng, TestRunner};
use serde_json::json;

fn arg<'a>(args: &'a [String], k: &str) -> Option<&'a str> {
    args.iter().position(|a| a == k).and_then(|i| args.get(i + 1)).map(|s| s.as_str())
}

fn seed_bytes(seed: u64, worker: u64, stream: &str) -> [u8; 32] {
    let mut x = seed
        .wrapping_mul(0x9E3779B97F4A7C15)
        .wrapping_add(worker.wrapping_mul(0xBF58476D1CE4E5B9))
        .wrapping_add(stream.bytes().fold(0u64, |a, b| a.wrapping_mul(131).wrapping_add(b as u64)));
    let mut out = [0u8; 32];
    for c in out.chunks_mut(8) {
        x = x.wrapping_add(0x9E3779B97F4A7C15);
        let mut z = x;
        z = (z ^ (z >> 30)).wrapping_mul(0xBF58476D1CE4E5B9);
        z = (z ^ (z >> 27)).wrapping_mul(0x94D049BB133111EB);
        z ^= z >> 31;
        c.copy_from_slice(&z.to_le_bytes());
    }
    out
}

// ------------------------------------------------------------------------------------------
// generators
// ------------------------------------------------------------------------------------------
fn id64() -> impl Strategy<Value = u64> {
    prop_oneof![
        5 => any::<u64>(),
        1 => Just(0u64),
        1 => Just(1u64),
        2 => any::<u64>().prop_map(|x| x | (1 << 63)),
        1 => Just(u64::MAX),
        1 => (0u32..64).prop_map(|b| 1u64 << b),
    ]
}

fn text(max_long: usize) -> BoxedStrategy<String> {
    prop_oneof![
        2 => Just(String::new()),
        6 => "[a-zA-Z0-9_.:/ -]{1,12}",
        3 => proptest::collection::vec(any::<char>(), 0..12).prop_map(|v| v.into_iter().collect::<String>()),
        1 => Just("a\0b".to_string()),
        // text that reads like a typed value: a reporter transmits it as the text it is
        2 => proptest::sample::select(vec!["007", "+5", "-0", "42", "true", "false", "null", "1e3", "NaN", " 7", "0x1f", "1.50", "9223372036854775808", "TRUE", "[]", "{}", "\"q\""]).prop_map(|s| s.to_string()),
        // text that a backend gives a meaning of its own (semantic-convention keys, field names
        // of the wire formats): to a reporter it is a key or a value like any other
        2 => proptest::sample::select(vec!["span.kind", "span.status_code", "span.status_description", "otel.status_code", "otel.status_description", "otel.library.name", "error", "service.name", "service", "resource", "name", "type", "span.type", "http.status_code", "sampling.priority", "_sampling_priority_v1", "_dd.p.dm", "jaeger-debug-id", "component", "language", "server", "client", "error_code", "meta", "metrics"]).prop_map(|s| s.to_string()),
        1 => Just("😀𝔘é中\u{301}".to_string()),
        1 => (0usize..=max_long).prop_map(|n| "xyzé".repeat(n / 5)),
    ]
    .boxed()
}

fn props(maxn: usize, max_long: usize) -> BoxedStrategy<Vec<(String, String)>> {
    (proptest::collection::vec((text(40), text(max_long)), 0..=maxn), proptest::bool::weighted(0.15))
        .prop_map(|(mut v, dup)| {
            if dup && v.len() >= 2 {
                let k = v[0].0.clone();
                v[1].0 = k;
            }
            v
        })
        .boxed()
}

fn rec(max_long: usize) -> BoxedStrategy<Rec> {
    (
        (id64(), id64(), id64(), id64()),
        prop_oneof![4 => 0u64..(1u64 << 62), 1 => Just(0u64), 1 => 0u64..2000],
        prop_oneof![4 => 0u64..(1u64 << 40), 1 => Just(0u64), 1 => 0u64..1000],
        text(max_long),
        props(8, max_long),
        proptest::collection::vec((text(60), 0u64..(1u64 << 62), props(4, 200)), 0..5),
    )
        .prop_map(|((hi, lo, span, parent), begin, dur, name, props, evs)| Rec {
            trace_hi: hi,
            trace_lo: lo,
            span,
            parent,
            begin,
            dur,
            name,
            props,
            events: evs.into_iter().map(|(name, ts, props)| Ev { name, ts, props }).collect(),
        })
        .boxed()
}

fn batch_c19() -> BoxedStrategy<Vec<Rec>> {
    // a collector cycle hands over the records of a few live traces interleaved: in half of the
    // batches the records share the trace ids of the first 1-3 of them
    (batch_c19_free(), prop_oneof![4 => Just(0usize), 1 => Just(1usize), 3 => 2usize..4], any::<u16>())
        .prop_map(|(mut v, k, salt)| {
            if k > 0 && v.len() > k {
                let ids: Vec<(u64, u64)> = v.iter().take(k).map(|r| (r.trace_hi, r.trace_lo)).collect();
                for (i, r) in v.iter_mut().enumerate() {
                    let (hi, lo) = ids[(i * 5 + (salt as usize >> (i % 13)) % 3) % k];
                    r.trace_hi = hi;
                    r.trace_lo = lo;
                }
            }
            v
        })
        .boxed()
}

fn batch_c19_free() -> BoxedStrategy<Vec<Rec>> {
    prop_oneof![
        6 => proptest::collection::vec(rec(300), 0..8),
        3 => proptest::collection::vec(rec(2000), 0..40),
        1 => proptest::collection::vec(rec(200), 100..400),
        // ordinary records around one record that is too large for any datagram (C20 allows the
        // Jaeger reporter to skip that one; its neighbours are still transmitted exactly once)
        2 => (proptest::collection::vec(rec(300), 2..12), any::<u16>(), 9000usize..20000).prop_map(|(mut v, at, n)| {
            let i = (at as usize * (v.len() + 1)) >> 16;
            let mut big = v[i.min(v.len() - 1)].clone();
            big.span ^= 0x5a5a;
            big.props.push(("big".to_string(), "x".repeat(n)));
            v.insert(i, big);
            v
        }),
    ]
    .boxed()
}

fn plan_strategy() -> BoxedStrategy<Plan> {
    (plan_strategy_sizes(), prop_oneof![3 => Just(0u8), 2 => Just(1u8), 3 => 2u8..5])
        .prop_map(|(mut p, t)| {
            p.traces = t;
            p
        })
        .boxed()
}

fn plan_strategy_sizes() -> BoxedStrategy<Plan> {
    let item = prop_oneof![
        8 => (Just(0u8), any::<u16>()),  // tiny
        3 => (Just(1u8), any::<u16>()),  // medium 1-3 KB
        3 => (Just(2u8), any::<u16>()),  // near-limit 7900..8100
        2 => (Just(3u8), any::<u16>()),  // oversize 8-40 KB
    ];
    // batches of a few medium spans whose total encoding lands within +-20 bytes of the limit
    let medium = (Just(1u8), any::<u16>());
    // mostly oversize spans around a few that fit
    let heavy = prop_oneof![
        4 => (Just(3u8), any::<u16>()),
        1 => (Just(0u8), any::<u16>()),
        1 => (Just(1u8), any::<u16>()),
    ];
    prop_oneof![
        2 => (proptest::collection::vec(heavy, 3..12), -20i8..20).prop_map(|(items, straddle)| Plan { items, straddle, traces: 0 }),
        3 => (proptest::collection::vec(medium, 2..5), -20i8..20).prop_map(|(items, straddle)| Plan { items, straddle, traces: 0 }),
        6 => (proptest::collection::vec(item.clone(), 1..40), -20i8..20).prop_map(|(items, straddle)| Plan { items, straddle, traces: 0 }),
        2 => (proptest::collection::vec(item.clone(), 40..160), -20i8..20).prop_map(|(items, straddle)| Plan { items, straddle, traces: 0 }),
        1 => (proptest::collection::vec((Just(0u8), any::<u16>()), 100..600), -20i8..20).prop_map(|(items, straddle)| Plan { items, straddle, traces: 0 }),
        // many small spans and one or two medium ones whose total is steered onto the limit, a
        // byte or two either way: one datagram of >= 15 spans that just fits, or just does not
        3 => (proptest::collection::vec((Just(0u8), any::<u16>()), 15..60), proptest::collection::vec((Just(1u8), any::<u16>()), 1..3), -3i8..4, any::<u16>())
            .prop_map(|(mut items, mediums, straddle, at)| {
                for (k, m) in mediums.into_iter().enumerate() {
                    let pos = (at as usize + k * 7) % (items.len() + 1);
                    items.insert(pos, m);
                }
                Plan { items, straddle, traces: 0 }
            }),
    ]
    .boxed()
}

// ------------------------------------------------------------------------------------------
// network harness
// ------------------------------------------------------------------------------------------
struct HttpReq {
    method: String,
    url: String,
    headers: Vec<(String, String)>,
    body: Vec<u8>,
}

/// number of coming requests the mock agent answers with 503
static FAIL_NEXT: std::sync::atomic::AtomicU32 = std::sync::atomic::AtomicU32::new(0);

/// the mock agent listens on the IPv4 and on the IPv6 loopback address (an agent address is a
/// `SocketAddr` of either family); both listeners feed one channel
fn http_server() -> (u16, u16, Receiver<HttpReq>) {
    let (tx, rx) = channel();
    let mut ports = vec![];
    for bind in ["127.0.0.1:0", "[::1]:0"] {
        let server = tiny_http::Server::http(bind).unwrap();
        ports.push(server.server_addr().to_ip().unwrap().port());
        let tx = tx.clone();
        std::thread::spawn(move || loop {
            match server.recv() {
                Ok(mut rq) => {
                    let mut body = Vec::new();
                    let _ = rq.as_reader().read_to_end(&mut body);
                    let r = HttpReq {
                        method: rq.method().to_string(),
                        url: rq.url().to_string(),
                        headers: rq.headers().iter().map(|h| (h.field.to_string().to_lowercase(), h.value.to_string())).collect(),
                        body,
                    };
                    // an agent that is overloaded or restarting answers 503 to some requests
                    if FAIL_NEXT.load(std::sync::atomic::Ordering::SeqCst) > 0 {
                        FAIL_NEXT.fetch_sub(1, std::sync::atomic::Ordering::SeqCst);
                        let _ = rq.respond(tiny_http::Response::from_string("unavailable").with_status_code(503));
                        continue;
                    }
                    let _ = rq.respond(tiny_http::Response::from_string("{}"));
                    if tx.send(r).is_err() {
                        return;
                    }
                }
                Err(_) => return,
            }
        });
    }
    (ports[0], ports[1], rx)
}

#[derive(Debug, Clone, Default)]
struct Capture(Arc<Mutex<Vec<opentelemetry_sdk::trace::SpanData>>>);
impl opentelemetry_sdk::trace::SpanExporter for Capture {
    fn export(&self, batch: Vec<opentelemetry_sdk::trace::SpanData>) -> impl std::future::Future<Output = opentelemetry_sdk::error::OTelSdkResult> + Send {
        self.0.lock().unwrap().extend(batch);
        std::future::ready(Ok(()))
    }
}

// ------------------------------------------------------------------------------------------
// oracles for Datadog and OpenTelemetry
// ------------------------------------------------------------------------------------------
fn mget<'a>(m: &'a [(MVal, MVal)], k: &str) -> Option<&'a MVal> {
    m.iter().find(|(kk, _)| matches!(kk, MVal::Str(s) if s == k)).map(|(_, v)| v)
}

fn check_datadog(batch: &[Rec], reqs: &[HttpReq]) -> Vec<Viol> {
    let mut out = vec![];
    if batch.is_empty() {
        if !reqs.is_empty() {
            out.push(v("dd-request-for-empty-batch", "an HTTP request was sent for an empty batch"));
        }
        return out;
    }
    if reqs.len() != 1 {
        out.push(v("dd-request-count", format!("{} HTTP requests for one report() call", reqs.len())));
        return out;
    }
    let rq = &reqs[0];
    if rq.method != "POST" || rq.url != "/v0.4/traces" {
        out.push(v("dd-endpoint", format!("request is {} {}, expected POST /v0.4/traces", rq.method, rq.url)));
    }
    if !rq.headers.iter().any(|(k, val)| k == "content-type" && val == "application/msgpack") {
        out.push(v("dd-content-type", "Content-Type is not application/msgpack"));
    }
    let doc = match msgpack_document(&rq.body) {
        Ok(d) => d,
        Err(e) => {
            out.push(v("dd-malformed-msgpack", format!("body is not a well-formed msgpack document: {}", e)));
            return out;
        }
    };
    let MVal::Arr(traces) = &doc else {
        out.push(v("dd-shape", "body is not an array of traces"));
        return out;
    };
    // v0.4: an array of traces, each an array of spans. How the reporter distributes the spans
    // over inner arrays and in which order is not claimed; every record must be there once.
    let mut spans: Vec<&MVal> = vec![];
    for t in traces {
        let MVal::Arr(ss) = t else {
            out.push(v("dd-shape", "trace is not an array of spans"));
            return out;
        };
        spans.extend(ss.iter());
    }
    if spans.len() != batch.len() {
        out.push(v("dd-span-count", format!("{} spans transmitted for {} records", spans.len(), batch.len())));
        return out;
    }
    // pair every record with a span: the one at its own position if its identifying fields
    // agree, otherwise the first unused span with the record's ids, name and times
    let ident = |s: &MVal| -> Option<(i128, i128, i128, String, i128, i128)> {
        let MVal::Map(m) = s else { return None };
        let int = |k: &str| match mget(m, k) {
            Some(MVal::Int(x)) => Some(*x),
            _ => None,
        };
        let name = match mget(m, "name") {
            Some(MVal::Str(x)) => x.clone(),
            _ => return None,
        };
        Some((int("trace_id")?, int("span_id")?, int("parent_id")?, name, int("start")?, int("duration")?))
    };
    let want_ident = |r: &Rec| (r.trace_lo as i128, r.span as i128, r.parent as i128, r.name.clone(), r.begin as i128, r.dur as i128);
    let mut used = vec![false; spans.len()];
    let mut pairing: Vec<usize> = Vec::with_capacity(batch.len());
    for (i, r) in batch.iter().enumerate() {
        let w = want_ident(r);
        let at = if !used[i] && ident(spans[i]).as_ref() == Some(&w) {
            Some(i)
        } else {
            (0..spans.len()).find(|j| !used[*j] && ident(spans[*j]).as_ref() == Some(&w))
        };
        // no span with these fields: compare with the one at the same position (or any unused
        // one) so that the report names the field that differs
        let at = at.or_else(|| if !used[i] { Some(i) } else { (0..spans.len()).find(|j| !used[*j]) }).unwrap();
        used[at] = true;
        pairing.push(at);
    }
    for (i, r) in batch.iter().enumerate() {
        let s = spans[pairing[i]];
        let MVal::Map(m) = s else {
            out.push(v("dd-shape", format!("span {} is not a map", i)));
            continue;
        };
        let int = |k: &str| match mget(m, k) {
            Some(MVal::Int(x)) => Some(*x),
            _ => None,
        };
        let st = |k: &str| match mget(m, k) {
            Some(MVal::Str(x)) => Some(x.clone()),
            _ => None,
        };
        let mut bad = |what: &str, got: String, want: String| {
            out.push(v(format!("dd-span-content:{}", what), format!("record {}: {} is {}, expected {}", i, what, got, want)));
        };
        if int("trace_id") != Some(r.trace_lo as i128) {
            bad("trace_id", format!("{:?}", int("trace_id")), format!("{} (low 64 bits)", r.trace_lo));
        }
        if int("span_id") != Some(r.span as i128) {
            bad("span_id", format!("{:?}", int("span_id")), r.span.to_string());
        }
        if int("parent_id") != Some(r.parent as i128) {
            bad("parent_id", format!("{:?}", int("parent_id")), r.parent.to_string());
        }
        if st("name").as_deref() != Some(r.name.as_str()) {
            bad("name", format!("{:?}", st("name")), format!("{:?}", r.name));
        }
        if int("start") != Some(r.begin as i128) {
            bad("start", format!("{:?}", int("start")), r.begin.to_string());
        }
        if int("duration") != Some(r.dur as i128) {
            bad("duration", format!("{:?}", int("duration")), r.dur.to_string());
        }
        let rc = cfg();
        if st("service").as_deref() != Some(rc.service.as_str()) || st("resource").as_deref() != Some(rc.resource.as_str()) || st("type").as_deref() != Some(rc.ty.as_str()) {
            bad("service/resource/type", format!("{:?}/{:?}/{:?}", st("service"), st("resource"), st("type")), format!("{:?}/{:?}/{:?}", rc.service, rc.resource, rc.ty));
        }
        if int("error_code").is_none() {
            bad("error_code", "missing".into(), "an integer".into());
        }
        // meta: the properties as a map; for duplicate keys any one of the given values
        let meta: Vec<(String, String)> = match mget(m, "meta") {
            Some(MVal::Map(mm)) => mm
                .iter()
                .filter_map(|(k, val)| match (k, val) {
                    (MVal::Str(k), MVal::Str(val)) => Some((k.clone(), val.clone())),
                    _ => None,
                })
                .collect(),
            None => vec![],
            _ => {
                bad("meta", "not a map".into(), "a string map".into());
                vec![]
            }
        };
        let keys: HashSet<&str> = r.props.iter().map(|p| p.0.as_str()).collect();
        if meta.len() != keys.len() {
            bad("meta", format!("{} entries", meta.len()), format!("{} distinct keys", keys.len()));
        }
        for (k, val) in &meta {
            if !r.props.iter().any(|(pk, pv)| pk == k && pv == val) {
                bad("meta", format!("entry {:?}={:?}", k, val.chars().take(30).collect::<String>()), "a property of the record".into());
            }
        }
        for k in keys {
            if !meta.iter().any(|(mk, _)| mk == k) {
                bad("meta", format!("key {:?} missing", k), "present".into());
            }
        }
        let allowed = ["name", "service", "type", "resource", "start", "duration", "meta", "error_code", "span_id", "trace_id", "parent_id", "error", "metrics"];
        for (k, _) in m {
            if !matches!(k, MVal::Str(s) if allowed.contains(&s.as_str())) {
                bad("unknown-key", format!("{:?}", k), "a v0.4 span key".into());
            }
        }
        if out.len() > 6 {
            break;
        }
    }
    out
}

fn otel_kind(k: u8) -> opentelemetry::trace::SpanKind {
    use opentelemetry::trace::SpanKind;
    match k % 5 {
        0 => SpanKind::Client,
        1 => SpanKind::Server,
        2 => SpanKind::Producer,
        3 => SpanKind::Consumer,
        _ => SpanKind::Internal,
    }
}

fn check_otel(batch: &[Rec], got: &[opentelemetry_sdk::trace::SpanData]) -> Vec<Viol> {
    use opentelemetry::trace::SpanKind;
    let mut out = vec![];
    if got.len() != batch.len() {
        out.push(v("otel-span-count", format!("{} SpanData exported for {} records", got.len(), batch.len())));
        return out;
    }
    for (i, (r, s)) in batch.iter().zip(got.iter()).enumerate() {
        let mut bad = |what: &str, detail: String| out.push(v(format!("otel-span-content:{}", what), format!("record {}: {}", i, detail)));
        let tid = u128::from_be_bytes(s.span_context.trace_id().to_bytes());
        if tid != r.trace() {
            bad("trace_id", format!("{:x} vs {:x}", tid, r.trace()));
        }
        let sid = u64::from_be_bytes(s.span_context.span_id().to_bytes());
        if sid != r.span {
            bad("span_id", format!("{:x} vs {:x}", sid, r.span));
        }
        let pid = u64::from_be_bytes(s.parent_span_id.to_bytes());
        if pid != r.parent {
            bad("parent_id", format!("{:x} vs {:x}", pid, r.parent));
        }
        if s.name.as_ref() != r.name {
            bad("name", format!("{:?} vs {:?}", s.name, r.name));
        }
        let ns = |t: SystemTime| t.duration_since(SystemTime::UNIX_EPOCH).map(|d| d.as_nanos() as u64).unwrap_or(u64::MAX);
        if ns(s.start_time) != r.begin {
            bad("start_time", format!("{} vs {}", ns(s.start_time), r.begin));
        }
        if ns(s.end_time) != r.begin + r.dur {
            bad("end_time", format!("{} vs {}", ns(s.end_time), r.begin + r.dur));
        }
        let attrs: Vec<(String, String)> = s.attributes.iter().map(|kv| (kv.key.as_str().to_string(), kv.value.as_str().to_string())).collect();
        if attrs != r.props {
            bad("attributes", format!("{:?} vs {:?}", attrs.iter().take(3).collect::<Vec<_>>(), r.props.iter().take(3).collect::<Vec<_>>()));
        }
        if s.events.events.len() != r.events.len() {
            bad("events", format!("{} events vs {}", s.events.events.len(), r.events.len()));
        } else {
            for (e, g) in r.events.iter().zip(s.events.events.iter()) {
                let ga: Vec<(String, String)> = g.attributes.iter().map(|kv| (kv.key.as_str().to_string(), kv.value.as_str().to_string())).collect();
                if g.name.as_ref() != e.name || ns(g.timestamp) != e.ts || ga != e.props {
                    bad("events", format!("event {:?} transmitted as {:?} at {}", e.name, g.name, ns(g.timestamp)));
                }
            }
        }
        if s.span_kind != otel_kind(cfg().kind) {
            bad("span_kind", format!("{:?}, configured {:?}", s.span_kind, otel_kind(cfg().kind)));
        }
        if s.instrumentation_scope.name() != cfg().scope {
            bad("scope", format!("{:?}, configured {:?}", s.instrumentation_scope.name(), cfg().scope));
        }
        if out.len() > 6 {
            break;
        }
    }
    out
}

// ------------------------------------------------------------------------------------------
// cases
// ------------------------------------------------------------------------------------------
#[derive(Clone, Debug, serde::Serialize, serde::Deserialize)]
enum Case {
    Jaeger { batch: Vec<Rec> },
    Datadog { batch: Vec<Rec> },
    Otel { batch: Vec<Rec> },
    JaegerPlan {
        plan: Plan,
        /// batches sent through the same reporter before the checked one
        #[serde(default)]
        prior: Vec<Plan>,
    },
    /// `inner` with generated constructor arguments of the reporter (service name, Datadog
    /// resource / type, OpenTelemetry span kind and scope) instead of the default ones
    With { cfg: RepCfg, inner: Box<Case> },
    /// Jaeger: the agent starts listening only after the reporter was created and its first
    /// batches were reported (`inner` is a Jaeger or JaegerPlan case)
    LateAgent { inner: Box<Case> },
}

struct Env {
    udp: UdpSink,
    http_port: u16,
    http_port6: u16,
    http_rx: Receiver<HttpReq>,
}

fn run_case(env: &Env, c: &Case) -> Outcome {
    if let Case::With { cfg: rc, inner } = c {
        set_cfg(rc);
        let o = run_case(env, inner);
        set_cfg(&RepCfg::default());
        return o;
    }
    if let Case::LateAgent { inner } = c {
        return match &**inner {
            Case::Jaeger { batch } => run_jaeger_late_agent(&[], batch, "C19"),
            Case::JaegerPlan { plan, prior } => {
                let pr: Vec<Vec<Rec>> = prior.iter().map(realise).collect();
                run_jaeger_late_agent(&pr, &realise(plan), "C20")
            }
            other => run_case(env, other),
        };
    }
    match c {
        Case::With { .. } | Case::LateAgent { .. } => unreachable!(),
        Case::Jaeger { batch } => run_jaeger(&env.udp, batch, "C19"),
        Case::JaegerPlan { plan, prior } => {
            let pr: Vec<Vec<Rec>> = prior.iter().map(realise).collect();
            run_jaeger_seq(&env.udp, &pr, &realise(plan), "C20")
        }
        Case::Datadog { batch } => {
            while env.http_rx.try_recv().is_ok() {}
            // the agent's address is of either family (derived from the batch, so that the case stays
            // a pure function of its data)
            let agent: std::net::SocketAddr = if batch.len() % 4 == 1 { format!("[::1]:{}", env.http_port6) } else { format!("127.0.0.1:{}", env.http_port) }.parse().unwrap();
            let mut rep = fastrace_datadog::DatadogReporter::new(agent, cfg().service, cfg().resource, cfg().ty);
            // a reporter lives as long as the process: in a third of the cases earlier batches went
            // through it, the agent answering 503 to one of them (derived from the batch itself so
            // that the case stays a pure function of its data)
            let mode = batch.len() % 3;
            if mode != 0 && !batch.is_empty() {
                let filler = vec![Rec { trace_hi: 0, trace_lo: 9, span: 9, parent: 0, begin: 5, dur: 5, name: "earlier-batch".into(), props: vec![("k".into(), "v".into())], events: vec![] }];
                if mode == 2 {
                    FAIL_NEXT.store(1, std::sync::atomic::Ordering::SeqCst);
                }
                rep.report(filler.iter().map(|r| r.to_record()).collect());
                FAIL_NEXT.store(0, std::sync::atomic::Ordering::SeqCst);
                std::thread::sleep(Duration::from_millis(2));
                while env.http_rx.try_recv().is_ok() {}
            }
            rep.report(batch.iter().map(|r| r.to_record()).collect());
            let mut reqs = vec![];
            if !batch.is_empty() {
                // report() sends synchronously: the request has arrived when it returns. The first
                // miss of a process is believed only after 10 s; while that failure is being shrunk
                // the wait is short (the shrunk case is replayed with the long wait by the driver)
                static MISSED: std::sync::atomic::AtomicBool = std::sync::atomic::AtomicBool::new(false);
                let wait = if MISSED.load(std::sync::atomic::Ordering::SeqCst) { Duration::from_millis(400) } else { Duration::from_secs(10) };
                match env.http_rx.recv_timeout(wait) {
                    Ok(r) => reqs.push(r),
                    Err(_) => {
                        MISSED.store(true, std::sync::atomic::Ordering::SeqCst);
                        return Outcome::Viols(vec![v("dd-no-request", format!("no HTTP request arrived at the agent ({}) after report() returned", agent))]);
                    }
                }
            }
            std::thread::sleep(Duration::from_millis(if batch.is_empty() { 20 } else { 0 }));
            while let Ok(r) = env.http_rx.try_recv() {
                reqs.push(r);
            }
            Outcome::Viols(check_datadog(batch, &reqs))
        }
        Case::Otel { batch } => {
            use opentelemetry::trace::SpanKind;
            use opentelemetry::InstrumentationScope;
            let cap = Capture::default();
            let mut rep = fastrace_opentelemetry::OpenTelemetryReporter::new(
                cap.clone(),
                otel_kind(cfg().kind),
                std::borrow::Cow::Owned(opentelemetry_sdk::Resource::builder().with_service_name(cfg().service).build()),
                InstrumentationScope::builder(cfg().scope).build(),
            );
            rep.report(batch.iter().map(|r| r.to_record()).collect());
            let got = cap.0.lock().unwrap().clone();
            Outcome::Viols(check_otel(batch, &got))
        }
    }
}

fn case_strategy(variant: &str) -> BoxedStrategy<Case> {
    // 40 % of the cases construct the reporter with generated arguments
    let text = prop_oneof![
        3 => "[a-z][a-z0-9._-]{0,20}",
        1 => Just(String::new()),
        1 => proptest::collection::vec(any::<char>(), 1..40).prop_map(|v| v.into_iter().filter(|c| *c != '\0').collect::<String>()),
        1 => "[a-z]{60,300}",
        1 => Just("服务名称-サービス-😀".to_string()),
    ];
    let rc = (text.clone(), text.clone(), text.clone(), 0u8..5, text).prop_map(|(service, resource, ty, kind, scope)| RepCfg { service, resource, ty, kind, scope });
    let jaeger = variant == "jaeger" || variant == "plan";
    (case_strategy_inner(variant), proptest::bool::weighted(0.4), rc, proptest::bool::weighted(0.12))
        .prop_map(move |(c, with, cfg, late)| {
            let c = if late && jaeger { Case::LateAgent { inner: Box::new(c) } } else { c };
            if with {
                Case::With { cfg, inner: Box::new(c) }
            } else {
                c
            }
        })
        .boxed()
}

fn case_strategy_inner(variant: &str) -> BoxedStrategy<Case> {
    match variant {
        "jaeger" => batch_c19().prop_map(|batch| Case::Jaeger { batch }).boxed(),
        "datadog" => prop_oneof![
            8 => proptest::collection::vec(rec(300), 0..10).boxed(),
            1 => proptest::collection::vec(rec(300), 10..120).boxed(),
            // siblings of one trace that start in the same tick (coarse clocks, zero durations)
            3 => (proptest::collection::vec(rec(100), 2..9), any::<u64>(), 0u64..(1u64 << 62), prop_oneof![Just(0u64), 0u64..5000], any::<u16>())
                .prop_map(|(mut v, trace, begin, dur, mask)| {
                    for (i, r) in v.iter_mut().enumerate() {
                        if i < 2 || mask & (1 << (i % 16)) != 0 {
                            r.trace_lo = trace;
                            r.begin = begin;
                            if i < 2 || mask & (1 << ((i + 5) % 16)) != 0 {
                                r.dur = dur;
                            }
                        }
                    }
                    v
                })
                .boxed(),
        ]
            .prop_map(|batch| Case::Datadog { batch })
            .boxed(),
        "otel" => prop_oneof![
            12 => batch_c19(),
            // payloads of several MiB: many records with a large property each, or thousands of
            // small ones
            1 => (proptest::collection::vec(rec(100), 130..400), 7000usize..9000).prop_map(|(mut v, n)| {
                for r in v.iter_mut() {
                    r.props.push(("blob".to_string(), "y".repeat(n)));
                }
                v
            }),
            1 => proptest::collection::vec(rec(40), 6000..9000),
        ]
        .prop_map(|batch| Case::Otel { batch })
        .boxed(),
        _ => {
            // a reporter object sees many batches: 0-2 earlier ones, often small and heavy
            let small_heavy = prop_oneof![
                3 => proptest::collection::vec(prop_oneof![3 => (Just(3u8), any::<u16>()), 1 => (Just(0u8), any::<u16>()), 1 => (Just(2u8), any::<u16>())], 1..4),
                1 => proptest::collection::vec((Just(0u8), any::<u16>()), 1..300),
            ]
            .prop_map(|items| Plan { items, straddle: 0, traces: 0 });
            (plan_strategy(), prop_oneof![3 => Just(vec![]).boxed(), 2 => proptest::collection::vec(small_heavy, 1..3).boxed()])
                .prop_map(|(plan, prior)| Case::JaegerPlan { plan, prior })
                .boxed()
        }
    }
}

fn nontrivial(c: &Case) -> bool {
    if let Case::With { cfg: rc, inner } = c {
        set_cfg(rc);
        let r = nontrivial(inner);
        set_cfg(&RepCfg::default());
        return r;
    }
    if let Case::LateAgent { inner } = c {
        return nontrivial(inner);
    }
    match c {
        Case::With { .. } | Case::LateAgent { .. } => unreachable!(),
        Case::Jaeger { batch } | Case::Datadog { batch } | Case::Otel { batch } => {
            batch.len() >= 2
                && batch.iter().any(|r| r.span >> 63 == 1 || r.trace_hi >> 63 == 1 || r.parent >> 63 == 1 || r.trace_lo >> 63 == 1)
                && batch.iter().any(|r| !r.events.is_empty() || !r.name.is_ascii() || r.props.iter().any(|(k, v)| !k.is_ascii() || !v.is_ascii()))
        }
        Case::JaegerPlan { plan, .. } => {
            let recs = realise(plan);
            let total = reference_emit_batch(&cfg().service, &recs).len();
            let n = plan.items.len();
            total >= UDP_LIMIT && plan.items.iter().take(n.saturating_sub(1)).any(|(k, _)| *k >= 2)
        }
    }
}

fn label(c: &Case) -> String {
    if let Case::With { cfg: rc, inner } = c {
        set_cfg(rc);
        let r = format!("{} (generated reporter arguments)", label(inner));
        set_cfg(&RepCfg::default());
        return r;
    }
    if let Case::LateAgent { inner } = c {
        return format!("{} (agent starts listening late)", label(inner));
    }
    match c {
        Case::With { .. } | Case::LateAgent { .. } => unreachable!(),
        Case::Jaeger { batch } => format!("jaeger batch of {}", bucket(batch.len())),
        Case::Datadog { batch } => format!("datadog batch of {}", bucket(batch.len())),
        Case::Otel { batch } => format!("otel batch of {}", bucket(batch.len())),
        Case::JaegerPlan { plan, .. } => {
            let recs = realise(plan);
            let total = reference_emit_batch(&cfg().service, &recs).len();
            let over = plan.items.iter().filter(|(k, _)| *k == 3).count();
            let near = plan.items.iter().filter(|(k, _)| *k == 2).count();
            format!(
                "plan: total {} limit, {} oversize, {} near-limit",
                if total < UDP_LIMIT { "below" } else if total < UDP_LIMIT + 40 { "just above" } else { "above" },
                if over == 0 { "no" } else { "some" },
                if near == 0 { "no" } else { "some" }
            )
        }
    }
}

fn bucket(n: usize) -> &'static str {
    match n {
        0 => "0",
        1 => "1",
        2..=9 => "2-9",
        10..=99 => "10-99",
        _ => "100+",
    }
}

fn worker(args: &[String]) -> i32 {
    let variant = arg(args, "--variant").unwrap_or("jaeger");
    let prop = arg(args, "--prop").unwrap_or("C19");
    let seed: u64 = arg(args, "--seed").unwrap_or("0").parse().unwrap();
    let wid: u64 = arg(args, "--worker").unwrap_or("0").parse().unwrap();
    let cases: u32 = arg(args, "--cases").unwrap_or("100").parse().unwrap();
    let out = arg(args, "--out").expect("--out");
    let known: Vec<String> = arg(args, "--known").map(|k| k.split("||").filter(|s| !s.is_empty()).map(|s| s.to_string()).collect()).unwrap_or_default();
    let (http_port, http_port6, http_rx) = http_server();
    let env = Env { udp: UdpSink::new(), http_port, http_port6, http_rx };
    let strategy = case_strategy(variant);
    let cfg = Config { cases, failure_persistence: None, max_shrink_iters: 600, ..Config::default() };
    let mut runner = TestRunner::new_with_rng(cfg, TestRng::from_seed(RngAlgorithm::ChaCha, &seed_bytes(seed, wid, variant)));
    let start = std::time::Instant::now();
    let st = std::cell::RefCell::new((0u64, HashSet::<u64>::new(), Vec::<serde_json::Value>::new(), false, BTreeMap::<String, u64>::new(), Vec::<String>::new()));
    let res = runner.run(&strategy, |c| {
        let o = run_case(&env, &c);
        let mut s = st.borrow_mut();
        let viols = match o {
            Outcome::Viols(vv) => vv,
            Outcome::Inconclusive(m) => {
                s.5.push(m);
                vec![]
            }
        };
        let unknown: Vec<&Viol> = viols.iter().filter(|x| !known.contains(&x.sig)).collect();
        if !s.3 {
            s.0 += 1;
            *s.4.entry(label(&c)).or_insert(0) += 1;
            if nontrivial(&c) {
                use std::hash::{Hash, Hasher};
                let mut h = std::collections::hash_map::DefaultHasher::new();
                serde_json::to_string(&c).unwrap().hash(&mut h);
                if s.1.insert(h.finish()) && s.2.len() < 2 {
                    let js = serde_json::to_value(&c).unwrap();
                    if js.to_string().len() < 3000 {
                        s.2.push(js);
                    }
                }
            }
        }
        if unknown.is_empty() {
            Ok(())
        } else {
            s.3 = true;
            Err(TestCaseError::fail(unknown[0].sig.clone()))
        }
    });
    let s = st.into_inner();
    let mut failure = serde_json::Value::Null;
    if let Err(TestError::Fail(reason, c)) = &res {
        let viols = match run_case(&env, c) {
            Outcome::Viols(vv) => vv,
            Outcome::Inconclusive(m) => vec![v("inconclusive", m)],
        };
        failure = json!({"signature": reason.to_string(), "program": c, "violations": viols.iter().map(|x| json!({"sig": x.sig, "msg": x.msg})).collect::<Vec<_>>()});
    } else if let Err(TestError::Abort(r)) = &res {
        failure = json!({"abort": r.to_string()});
    }
    let mut nt: Vec<u64> = s.1.iter().cloned().collect();
    nt.sort();
    let rule = match variant {
        "plan" => "batches of 1-600 records built from a generated size plan (tiny / medium 1-3KB / near-limit 7900-8100B / oversize 8-40KB single-span encodings at generated positions, total size steered to straddle 8000B), sizes realised with an independent reference Thrift encoder; oracle: every datagram < 8000B and well-formed, concatenated spans == exactly the records that fit alone (reference size < 7990B must, >= 8010B must not), each once and in order, call terminates; non-trivial = total encoding >= 8000B and a near-limit or oversize record not at the end; distinct = hash of the case",
        _ => "batches of 0-400 records (ids uniform plus 0/1/top-bit/MAX, names/keys/values arbitrary UTF-8 incl. empty, NUL, multi-byte, up to 2KB, duplicate keys, 0-8 properties, 0-5 events) through the real reporter to a loopback UDP socket / loopback HTTP server / capturing SpanExporter, decoded by independent decoders; non-trivial = >=2 records, one id with the top bit set and one non-ASCII string or event; distinct = hash of the case",
    };
    let mut labels = s.4.clone();
    if !s.5.is_empty() {
        labels.insert("inconclusive (kernel drop / harness)".into(), s.5.len() as u64);
    }
    let res = json!({
        "property": prop, "variant": variant, "cancelable": false, "seed": seed, "worker": wid,
        "evaluations": s.0, "nontrivial_hashes": nt.iter().map(|h| format!("{:016x}", h)).collect::<Vec<_>>(),
        "labels": labels, "excluded": {}, "known_hits": {}, "samples": s.2,
        "records_delivered": 0, "ops_executed": s.0, "ops_skipped": 0, "failure": failure, "rule": rule,
        "inconclusive": s.5.iter().take(3).collect::<Vec<_>>(),
        "wall_s": start.elapsed().as_secs_f64(),
    });
    std::fs::File::create(out).unwrap().write_all(serde_json::to_string(&res).unwrap().as_bytes()).unwrap();
    0
}

fn replay(args: &[String]) -> i32 {
    let file = arg(args, "--file").expect("--file");
    let vj: serde_json::Value = serde_json::from_str(&std::fs::read_to_string(file).unwrap()).unwrap();
    let c: Case = if let Some(hex) = vj.get("bytes_hex").and_then(|h| h.as_str()) {
        let bytes: Vec<u8> = (0..hex.len() / 2).map(|i| u8::from_str_radix(&hex[2 * i..2 * i + 2], 16).unwrap()).collect();
        Case::JaegerPlan { plan: plan_from_bytes(&bytes), prior: vec![] }
    } else {
        serde_json::from_value(vj["program"].clone()).expect("case")
    };
    let (http_port, http_port6, http_rx) = http_server();
    let env = Env { udp: UdpSink::new(), http_port, http_port6, http_rx };
    let viols = match run_case(&env, &c) {
        Outcome::Viols(vv) => vv,
        Outcome::Inconclusive(m) => {
            eprintln!("inconclusive: {}", m);
            return 2;
        }
    };
    println!("{}", serde_json::to_string_pretty(&json!({"violations": viols.iter().map(|x| json!({"sig": x.sig, "msg": x.msg})).collect::<Vec<_>>(), "narrative": []})).unwrap());
    if viols.is_empty() {
        0
    } else {
        1
    }
}

/// `fuzzplan`: read one libFuzzer input from a file, run the plan, exit 1 on violation (used by
/// the fuzz target through in-process calls is not possible because it needs sockets; the fuzz
/// target links this binary's logic through the library instead)
fn main() {
    let args: Vec<String> = std::env::args().collect();
    std::process::exit(match args.get(1).map(|s| s.as_str()) {
        Some("worker") => worker(&args),
        Some("replay") => replay(&args),
        _ => 2,
    });
}

//! C12 oracle: traceparent / id text codecs. Shared by the proptest worker and the libFuzzer target.

use fastrace::prelude::*;
use std::panic::{catch_unwind, AssertUnwindSafe};
use std::str::FromStr;

#[derive(Debug, Clone)]
pub struct Viol {
    pub sig: String,
    pub msg: String,
}

fn v(sig: &str, msg: String) -> Viol {
    Viol { sig: sig.to_string(), msg }
}

/// Independent reference for the property's sentence about decoding.
#[derive(Debug, PartialEq, Clone)]
pub enum Ref {
    /// the text violates one of the listed conditions: the result must be None
    MustNone(&'static str),
    /// every field is a hexadecimal number that fits: if a context is returned it must be this
    Values { trace: u128, span: u64, sampled: bool, canonical: bool },
}

fn hex_value(s: &str, bits: u32) -> Option<u128> {
    if s.is_empty() || !s.bytes().all(|b| b.is_ascii_hexdigit()) {
        return None;
    }
    // the value fits iff, leading zeros apart, there are at most bits/4 digits
    let digits = s.trim_start_matches('0');
    if digits.len() > (bits / 4) as usize {
        return None;
    }
    let mut val: u128 = 0;
    for b in digits.bytes() {
        val = (val << 4) | (b as char).to_digit(16).unwrap() as u128;
    }
    Some(val)
}

pub fn reference(text: &str) -> Ref {
    let fields: Vec<&str> = text.split('-').collect();
    if fields.len() != 4 {
        return Ref::MustNone("not exactly four dash-separated fields");
    }
    if fields[0] != "00" {
        return Ref::MustNone("version field is not 00");
    }
    let Some(trace) = hex_value(fields[1], 128) else { return Ref::MustNone("trace id is not a hexadecimal number that fits 128 bits") };
    let Some(span) = hex_value(fields[2], 64) else { return Ref::MustNone("span id is not a hexadecimal number that fits 64 bits") };
    let Some(flags) = hex_value(fields[3], 8) else { return Ref::MustNone("flags field is not a hexadecimal number that fits 8 bits") };
    let canonical = text.len() == 55 && fields[1].len() == 32 && fields[2].len() == 16 && fields[3].len() == 2 && !text.bytes().any(|b| b.is_ascii_uppercase());
    Ref::Values { trace, span: span as u64, sampled: flags & 1 == 1, canonical }
}

pub fn check_decode(text: &str) -> Vec<Viol> {
    let mut out = vec![];
    let got = match catch_unwind(AssertUnwindSafe(|| SpanContext::decode_w3c_traceparent(text))) {
        Ok(g) => g.map(|c| (c.trace_id.0, c.span_id.0, c.sampled)),
        Err(_) => {
            out.push(v("decode-panic", format!("decode_w3c_traceparent({:?}) panicked", text)));
            return out;
        }
    };
    match (reference(text), got) {
        (Ref::MustNone(why), Some(g)) => {
            let sig = if text.contains('+') { "decode-accepts-sign" } else { "decode-accepts-malformed" };
            out.push(v(sig, format!("decode_w3c_traceparent({:?}) returned {:x?} although {}", text, g, why)));
        }
        (Ref::MustNone(_), None) => {}
        (Ref::Values { trace, span, sampled, canonical }, g) => match g {
            Some(g) => {
                if g != (trace, span, sampled) {
                    out.push(v("decode-wrong-values", format!("decode_w3c_traceparent({:?}) returned {:x?}, the fields denote {:x?}", text, g, (trace, span, sampled))));
                }
            }
            None => {
                if canonical {
                    out.push(v("decode-rejects-canonical", format!("decode_w3c_traceparent({:?}) returned None for a canonical traceparent", text)));
                }
            }
        },
    }
    out
}

fn is_canonical_form(s: &str) -> bool {
    let b = s.as_bytes();
    if b.len() != 55 {
        return false;
    }
    let lower_hex = |x: &[u8]| x.iter().all(|c| c.is_ascii_digit() || (b'a'..=b'f').contains(c));
    &b[0..3] == b"00-" && lower_hex(&b[3..35]) && b[35] == b'-' && lower_hex(&b[36..52]) && b[52] == b'-' && lower_hex(&b[53..55])
}

pub fn check_context(trace: u128, span: u64, sampled: bool) -> Vec<Viol> {
    let mut out = vec![];
    let r = catch_unwind(|| {
        let c = SpanContext::new(TraceId(trace), SpanId(span)).sampled(sampled);
        let s = c.encode_w3c_traceparent();
        let d = SpanContext::decode_w3c_traceparent(&s).map(|c| (c.trace_id.0, c.span_id.0, c.sampled));
        (s, d)
    });
    let Ok((s, d)) = r else {
        out.push(v("encode-panic", format!("encode/decode panicked for ({:x},{:x},{})", trace, span, sampled)));
        return out;
    };
    if !is_canonical_form(&s) {
        out.push(v("encode-form", format!("encode_w3c_traceparent gave {:?}, not 00-<32 lowercase hex>-<16 lowercase hex>-<2 hex>", s)));
    }
    if d != Some((trace, span, sampled)) {
        out.push(v("roundtrip", format!("decode(encode(({:x},{:x},{}))) = {:x?} via {:?}", trace, span, sampled, d, s)));
    }
    // independent reading of the encoded text
    if let Ref::Values { trace: t, span: sp, sampled: sa, .. } = reference(&s) {
        if (t, sp, sa) != (trace, span, sampled) {
            out.push(v("encode-wrong-fields", format!("encode(({:x},{:x},{})) = {:?} denotes ({:x},{:x},{})", trace, span, sampled, s, t, sp, sa)));
        }
    }
    // every other way to the same context and to its header gives the same text
    let routes = catch_unwind(|| {
        #[allow(deprecated)]
        {
            let base = SpanContext::new(TraceId(trace), SpanId(span));
            let mut r: Vec<(&'static str, String)> = vec![];
            r.push(("sampled() set twice", base.sampled(!sampled).sampled(sampled).encode_w3c_traceparent()));
            let mut lit = SpanContext::new(TraceId(0), SpanId(0));
            lit.trace_id = TraceId(trace);
            lit.span_id = SpanId(span);
            lit.sampled = sampled;
            r.push(("fields assigned", lit.encode_w3c_traceparent()));
            // the deprecated entry point: the flag passed to it is the flag of the header, whatever
            // the context's own flag is
            r.push(("encode_w3c_traceparent_with_sampled on a sampled context", base.sampled(true).encode_w3c_traceparent_with_sampled(sampled)));
            r.push(("encode_w3c_traceparent_with_sampled on an unsampled context", base.sampled(false).encode_w3c_traceparent_with_sampled(sampled)));
            if let Some(d) = SpanContext::decode_w3c_traceparent(&base.sampled(sampled).encode_w3c_traceparent()) {
                r.push(("re-encoded after decoding", d.encode_w3c_traceparent()));
                r.push(("decoded, then encode_w3c_traceparent_with_sampled", d.sampled(!sampled).encode_w3c_traceparent_with_sampled(sampled)));
            }
            r
        }
    });
    match routes {
        Err(_) => out.push(v("encode-panic", format!("an encoding route panicked for ({:x},{:x},{})", trace, span, sampled))),
        Ok(rs) => {
            for (what, text) in rs {
                if text != s {
                    out.push(v("encode-route-differs", format!("({:x},{:x},{}): {} gives {:?}, encode_w3c_traceparent of the same context gives {:?}", trace, span, sampled, what, text, s)));
                }
            }
        }
    }
    out
}

/// The codecs are pure functions of their argument, whatever the calling context: the same checks
/// run from the destructors of two user thread-locals while the thread's local storage is torn
/// down, one registered before the thread's first codec call and one after it (so that one of
/// them outlives whatever the library registered in between, in either destruction order).
pub fn check_in_teardown(trace: u128, span: u64, sampled: bool) -> Vec<Viol> {
    use std::cell::RefCell;
    use std::sync::mpsc::{channel, Sender};
    struct Sentinel(RefCell<Option<(u128, u64, bool, &'static str, Sender<Vec<Viol>>)>>);
    impl Drop for Sentinel {
        fn drop(&mut self) {
            if let Some((t, s, b, which, tx)) = self.0.get_mut().take() {
                let r = catch_unwind(|| {
                    let mut o = check_context(t, s, b);
                    o.extend(check_ids(t, s));
                    o
                });
                let mut o = match r {
                    Ok(o) => o,
                    Err(_) => vec![v("encode-panic", format!("a codec call panicked for ({:x},{:x},{})", t, s, b))],
                };
                for x in o.iter_mut() {
                    x.sig = format!("in-thread-local-destructor:{}", x.sig);
                    x.msg = format!("[called from the destructor of a thread-local registered {} the thread's first codec call] {}", which, x.msg);
                }
                let _ = tx.send(o);
            }
        }
    }
    thread_local! {
        static EARLY: Sentinel = Sentinel(RefCell::new(None));
        static LATE: Sentinel = Sentinel(RefCell::new(None));
    }
    let (tx, rx) = channel();
    let h = std::thread::spawn(move || {
        EARLY.with(|e| *e.0.borrow_mut() = Some((trace, span, sampled, "before", tx.clone())));
        let mut o = check_context(trace, span, sampled);
        o.extend(check_ids(trace, span));
        LATE.with(|e| *e.0.borrow_mut() = Some((trace, span, sampled, "after", tx)));
        o
    });
    let mut out = h.join().unwrap_or_else(|_| vec![v("encode-panic", "the thread panicked".to_string())]);
    let mut n = 0;
    while let Ok(o) = rx.recv() {
        out.extend(o);
        n += 1;
    }
    if n != 2 {
        out.push(v("in-thread-local-destructor:did-not-run", format!("{} of 2 destructors reported", n)));
    }
    out
}

/// generated ids and contexts (`random()`, `Default`) are ordinary values: they round-trip too
pub fn check_generated_values() -> Vec<Viol> {
    let mut out = vec![];
    let r = catch_unwind(|| {
        let c = SpanContext::random();
        let t = TraceId::random();
        let s = SpanId::random();
        let d = TraceId::default();
        let e = SpanId::default();
        vec![(c.trace_id.0, c.span_id.0, c.sampled), (t.0, s.0, true), (d.0, e.0, false)]
    });
    match r {
        Err(_) => out.push(v("encode-panic", "random()/default() of TraceId, SpanId or SpanContext panicked".to_string())),
        Ok(vals) => {
            for (t, s, f) in vals {
                out.extend(check_context(t, s, f).into_iter().filter(|x| x.sig != "encode-route-differs" || true));
                out.extend(check_ids(t, s));
            }
        }
    }
    out
}

pub fn check_ids(trace: u128, span: u64) -> Vec<Viol> {
    let mut out = vec![];
    let r = catch_unwind(|| {
        let t = TraceId(trace);
        let s = SpanId(span);
        let ts = t.to_string();
        let ss = s.to_string();
        let tj = serde_json::to_string(&t).ok();
        let sj = serde_json::to_string(&s).ok();
        let tb = TraceId::from_str(&ts).ok().map(|x| x.0);
        let sb = SpanId::from_str(&ss).ok().map(|x| x.0);
        let tjb = tj.as_ref().and_then(|j| serde_json::from_str::<TraceId>(j).ok()).map(|x| x.0);
        let sjb = sj.as_ref().and_then(|j| serde_json::from_str::<SpanId>(j).ok()).map(|x| x.0);
        (ts, ss, tj, sj, tb, sb, tjb, sjb)
    });
    let Ok((ts, ss, tj, sj, tb, sb, tjb, sjb)) = r else {
        out.push(v("id-panic", format!("id codec panicked for ({:x},{:x})", trace, span)));
        return out;
    };
    let want_t = format!("{:032x}", trace);
    let want_s = format!("{:016x}", span);
    if ts != want_t {
        out.push(v("traceid-display", format!("TraceId({:x}).to_string() = {:?}", trace, ts)));
    }
    if ss != want_s {
        out.push(v("spanid-display", format!("SpanId({:x}).to_string() = {:?}", span, ss)));
    }
    if tb != Some(trace) {
        out.push(v("traceid-fromstr", format!("TraceId::from_str({:?}) = {:x?}", ts, tb)));
    }
    if sb != Some(span) {
        out.push(v("spanid-fromstr", format!("SpanId::from_str({:?}) = {:x?}", ss, sb)));
    }
    if tj.as_deref() != Some(&format!("\"{}\"", want_t)) {
        out.push(v("traceid-serde-text", format!("serde text of TraceId({:x}) = {:?}", trace, tj)));
    }
    if sj.as_deref() != Some(&format!("\"{}\"", want_s)) {
        out.push(v("spanid-serde-text", format!("serde text of SpanId({:x}) = {:?}", span, sj)));
    }
    if tjb != Some(trace) {
        out.push(v("traceid-serde-roundtrip", format!("serde round trip of TraceId({:x}) = {:x?}", trace, tjb)));
    }
    if sjb != Some(span) {
        out.push(v("spanid-serde-roundtrip", format!("serde round trip of SpanId({:x}) = {:x?}", span, sjb)));
    }
    out.extend(check_ids_serde_routes(trace, span));
    out
}

/// "round-trip through serde" does not name a data format: the same text must deserialize whether
/// the deserializer lends it (borrowed), passes it transiently, or hands over an owned String.
fn check_ids_serde_routes(trace: u128, span: u64) -> Vec<Viol> {
    use serde::de::value::{BorrowedStrDeserializer, Error as DeErr, StrDeserializer, StringDeserializer};
    use serde::Deserialize;
    let mut out = vec![];
    let want_t = format!("{:032x}", trace);
    let want_s = format!("{:016x}", span);
    let r = catch_unwind(|| {
        let mut res: Vec<(&'static str, Option<u128>, Option<u64>)> = vec![];
        // serde_json::Value: owned strings both ways
        let tv = serde_json::to_value(TraceId(trace)).ok();
        let sv = serde_json::to_value(SpanId(span)).ok();
        res.push((
            "json-value",
            tv.clone().and_then(|x| serde_json::from_value::<TraceId>(x).ok()).map(|x| x.0),
            sv.clone().and_then(|x| serde_json::from_value::<SpanId>(x).ok()).map(|x| x.0),
        ));
        let tvs = tv.as_ref().and_then(|x| x.as_str().map(|s| s.to_string()));
        let svs = sv.as_ref().and_then(|x| x.as_str().map(|s| s.to_string()));
        // a reader: transient strings
        let tj = format!("\"{}\"", want_t);
        let sj = format!("\"{}\"", want_s);
        res.push((
            "json-reader",
            serde_json::from_reader::<_, TraceId>(tj.as_bytes()).ok().map(|x| x.0),
            serde_json::from_reader::<_, SpanId>(sj.as_bytes()).ok().map(|x| x.0),
        ));
        // the same text with its first character written as a JSON escape
        let esc = |s: &str| format!("\"\\u{:04x}{}\"", s.as_bytes()[0] as u32, &s[1..]);
        res.push((
            "json-escaped",
            serde_json::from_str::<TraceId>(&esc(&want_t)).ok().map(|x| x.0),
            serde_json::from_str::<SpanId>(&esc(&want_s)).ok().map(|x| x.0),
        ));
        res.push((
            "transient-str",
            TraceId::deserialize(StrDeserializer::<DeErr>::new(&want_t)).ok().map(|x| x.0),
            SpanId::deserialize(StrDeserializer::<DeErr>::new(&want_s)).ok().map(|x| x.0),
        ));
        res.push((
            "owned-string",
            TraceId::deserialize(StringDeserializer::<DeErr>::new(want_t.clone())).ok().map(|x| x.0),
            SpanId::deserialize(StringDeserializer::<DeErr>::new(want_s.clone())).ok().map(|x| x.0),
        ));
        // a compact (not human-readable) data format: the property names one representation,
        // fixed-width lowercase hex, not one per kind of format
        let tt = compact::to_token(&TraceId(trace));
        let st = compact::to_token(&SpanId(span));
        res.push((
            "compact-format",
            tt.clone().and_then(|t| compact::from_token::<TraceId>(t)).map(|x| x.0),
            st.clone().and_then(|t| compact::from_token::<SpanId>(t)).map(|x| x.0),
        ));
        res.push((
            "compact-format-text",
            if tt == Some(compact::Token::Str(want_t.clone())) { Some(trace) } else { None },
            if st == Some(compact::Token::Str(want_s.clone())) { Some(span) } else { None },
        ));
        res.push((
            "compact-format-from-hex",
            compact::from_token::<TraceId>(compact::Token::Str(want_t.clone())).map(|x| x.0),
            compact::from_token::<SpanId>(compact::Token::Str(want_s.clone())).map(|x| x.0),
        ));
        res.push((
            "borrowed-str",
            TraceId::deserialize(BorrowedStrDeserializer::<DeErr>::new(&want_t)).ok().map(|x| x.0),
            SpanId::deserialize(BorrowedStrDeserializer::<DeErr>::new(&want_s)).ok().map(|x| x.0),
        ));
        (res, tvs, svs)
    });
    let Ok((res, tvs, svs)) = r else {
        out.push(v("id-panic", format!("id serde codec panicked for ({:x},{:x})", trace, span)));
        return out;
    };
    if tvs.as_deref() != Some(want_t.as_str()) {
        out.push(v("traceid-serde-text", format!("serde value of TraceId({:x}) = {:?}", trace, tvs)));
    }
    if svs.as_deref() != Some(want_s.as_str()) {
        out.push(v("spanid-serde-text", format!("serde value of SpanId({:x}) = {:?}", span, svs)));
    }
    for (route, t, s) in res {
        if t != Some(trace) {
            out.push(v("traceid-serde-roundtrip", format!("serde round trip ({}) of TraceId({:x}) = {:x?}", route, trace, t)));
        }
        if s != Some(span) {
            out.push(v("spanid-serde-roundtrip", format!("serde round trip ({}) of SpanId({:x}) = {:x?}", route, span, s)));
        }
    }
    out
}

/// all checks for one text input (used by the fuzz target): decode + FromStr never panic
pub fn check_text(text: &str) -> Vec<Viol> {
    let mut out = check_decode(text);
    if catch_unwind(|| {
        let _ = TraceId::from_str(text);
        let _ = SpanId::from_str(text);
        let _ = serde_json::from_str::<TraceId>(text);
        let _ = serde_json::from_str::<SpanId>(text);
        use serde::Deserialize;
        let _ = TraceId::deserialize(serde::de::value::StrDeserializer::<serde::de::value::Error>::new(text));
        let _ = SpanId::deserialize(serde::de::value::StringDeserializer::<serde::de::value::Error>::new(text.to_string()));
    })
    .is_err()
    {
        out.push(v("fromstr-panic", format!("FromStr/serde panicked on {:?}", text)));
    }
    out
}

/// A minimal serde data format that is not human readable (`is_human_readable() == false`, as
/// bincode, postcard or MessagePack report): one scalar token.
pub mod compact {
    use serde::de::{self, Visitor};
    use serde::ser::{self, Impossible};
    use serde::{Deserialize, Serialize};

    #[derive(Clone, Debug, PartialEq)]
    pub enum Token {
        Str(String),
        Bytes(Vec<u8>),
        U64(u64),
        U128(u128),
        Other(&'static str),
    }

    #[derive(Debug)]
    pub struct Error(String);
    impl std::fmt::Display for Error {
        fn fmt(&self, f: &mut std::fmt::Formatter<'_>) -> std::fmt::Result {
            f.write_str(&self.0)
        }
    }
    impl std::error::Error for Error {}
    impl ser::Error for Error {
        fn custom<T: std::fmt::Display>(m: T) -> Self {
            Error(m.to_string())
        }
    }
    impl de::Error for Error {
        fn custom<T: std::fmt::Display>(m: T) -> Self {
            Error(m.to_string())
        }
    }

    pub struct Ser;
    macro_rules! other {
        ($($f:ident($t:ty)),*) => { $(fn $f(self, _v: $t) -> Result<Token, Error> { Ok(Token::Other(stringify!($f))) })* };
    }
    impl ser::Serializer for Ser {
        type Ok = Token;
        type Error = Error;
        type SerializeSeq = Impossible<Token, Error>;
        type SerializeTuple = Impossible<Token, Error>;
        type SerializeTupleStruct = Impossible<Token, Error>;
        type SerializeTupleVariant = Impossible<Token, Error>;
        type SerializeMap = Impossible<Token, Error>;
        type SerializeStruct = Impossible<Token, Error>;
        type SerializeStructVariant = Impossible<Token, Error>;
        fn is_human_readable(&self) -> bool {
            false
        }
        fn serialize_str(self, v: &str) -> Result<Token, Error> {
            Ok(Token::Str(v.to_string()))
        }
        fn serialize_bytes(self, v: &[u8]) -> Result<Token, Error> {
            Ok(Token::Bytes(v.to_vec()))
        }
        fn serialize_u64(self, v: u64) -> Result<Token, Error> {
            Ok(Token::U64(v))
        }
        fn serialize_u128(self, v: u128) -> Result<Token, Error> {
            Ok(Token::U128(v))
        }
        other!(serialize_bool(bool), serialize_i8(i8), serialize_i16(i16), serialize_i32(i32), serialize_i64(i64), serialize_u8(u8), serialize_u16(u16), serialize_u32(u32), serialize_f32(f32), serialize_f64(f64), serialize_char(char));
        fn serialize_none(self) -> Result<Token, Error> {
            Ok(Token::Other("none"))
        }
        fn serialize_some<T: ?Sized + Serialize>(self, v: &T) -> Result<Token, Error> {
            v.serialize(Ser)
        }
        fn serialize_unit(self) -> Result<Token, Error> {
            Ok(Token::Other("unit"))
        }
        fn serialize_unit_struct(self, _n: &'static str) -> Result<Token, Error> {
            Ok(Token::Other("unit_struct"))
        }
        fn serialize_unit_variant(self, _n: &'static str, _i: u32, _v: &'static str) -> Result<Token, Error> {
            Ok(Token::Other("unit_variant"))
        }
        fn serialize_newtype_struct<T: ?Sized + Serialize>(self, _n: &'static str, v: &T) -> Result<Token, Error> {
            v.serialize(Ser)
        }
        fn serialize_newtype_variant<T: ?Sized + Serialize>(self, _n: &'static str, _i: u32, _v: &'static str, _x: &T) -> Result<Token, Error> {
            Ok(Token::Other("newtype_variant"))
        }
        fn serialize_seq(self, _l: Option<usize>) -> Result<Self::SerializeSeq, Error> {
            Err(Error("seq".into()))
        }
        fn serialize_tuple(self, _l: usize) -> Result<Self::SerializeTuple, Error> {
            Err(Error("tuple".into()))
        }
        fn serialize_tuple_struct(self, _n: &'static str, _l: usize) -> Result<Self::SerializeTupleStruct, Error> {
            Err(Error("tuple_struct".into()))
        }
        fn serialize_tuple_variant(self, _n: &'static str, _i: u32, _v: &'static str, _l: usize) -> Result<Self::SerializeTupleVariant, Error> {
            Err(Error("tuple_variant".into()))
        }
        fn serialize_map(self, _l: Option<usize>) -> Result<Self::SerializeMap, Error> {
            Err(Error("map".into()))
        }
        fn serialize_struct(self, _n: &'static str, _l: usize) -> Result<Self::SerializeStruct, Error> {
            Err(Error("struct".into()))
        }
        fn serialize_struct_variant(self, _n: &'static str, _i: u32, _v: &'static str, _l: usize) -> Result<Self::SerializeStructVariant, Error> {
            Err(Error("struct_variant".into()))
        }
    }

    pub struct De(pub Token);
    impl<'de> de::Deserializer<'de> for De {
        type Error = Error;
        fn is_human_readable(&self) -> bool {
            false
        }
        fn deserialize_any<V: Visitor<'de>>(self, v: V) -> Result<V::Value, Error> {
            match self.0 {
                Token::Str(s) => v.visit_string(s),
                Token::Bytes(b) => v.visit_byte_buf(b),
                Token::U64(x) => v.visit_u64(x),
                Token::U128(x) => v.visit_u128(x),
                Token::Other(k) => Err(Error(format!("unsupported token {}", k))),
            }
        }
        fn deserialize_newtype_struct<V: Visitor<'de>>(self, _n: &'static str, v: V) -> Result<V::Value, Error> {
            v.visit_newtype_struct(self)
        }
        serde::forward_to_deserialize_any! {
            bool i8 i16 i32 i64 i128 u8 u16 u32 u64 u128 f32 f64 char str string bytes byte_buf option unit
            unit_struct seq tuple tuple_struct map struct enum identifier ignored_any
        }
    }

    pub fn to_token<T: Serialize>(v: &T) -> Option<Token> {
        v.serialize(Ser).ok()
    }
    pub fn from_token<T: for<'de> Deserialize<'de>>(t: Token) -> Option<T> {
        T::deserialize(De(t)).ok()
    }
}

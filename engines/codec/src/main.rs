use std::collections::{BTreeMap, HashSet};
use std::io::Write;

use fr_codec::*;
use proptest::prelude::*;
use proptest::test_runner::{Config, RngAlgorithm, TestCaseError, TestError, TestRng, TestRunner};
use serde_json::json;

fn arg<'a>(args: &'a [String], k: &str) -> Option<&'a str> {
    args.iter().position(|a| a == k).and_then(|i| args.get(i + 1)).map(|s| s.as_str())
}

fn seed_bytes(seed: u64, worker: u64, stream: &str) -> [u8; 32] {
    let mut x = seed
        .wrapping_mul(0x9E3779B97F4A7C15)
        .wrapping_add(worker.wrapping_mul(0xBF58476D1CE4E5B9))
        .wrapping_add(stream.bytes().fold(0u64, |a, b| a.wrapping_mul(131).wrapping_add(b as u64)));
    let mut out = [0u8; 32];
    for c in out.chunks_mut(8) {
        x = x.wrapping_add(0x9E3779B97F4A7C15);
        let mut z = x;
        z = (z ^ (z >> 30)).wrapping_mul(0xBF58476D1CE4E5B9);
        z = (z ^ (z >> 27)).wrapping_mul(0x94D049BB133111EB);
        z ^= z >> 31;
        c.copy_from_slice(&z.to_le_bytes());
    }
    out
}

#[derive(Clone, Debug, serde::Serialize, serde::Deserialize)]
enum Case {
    Ctx { trace: String, span: String, sampled: bool },
    Text { text: String },
    /// values the library generates itself: `random()` and `Default` of the ids and the context
    Generated,
    /// the context round trip, called while the calling thread's local storage is torn down
    Teardown { trace: String, span: String, sampled: bool },
}

fn u128_classes() -> impl Strategy<Value = u128> {
    prop_oneof![
        4 => any::<u128>(),
        1 => Just(0u128),
        1 => Just(1u128),
        1 => Just(u128::MAX),
        1 => any::<u128>().prop_map(|x| x | (1u128 << 127)),
        1 => (0u32..128).prop_map(|b| 1u128 << b),
        1 => any::<u64>().prop_map(|x| x as u128),
        1 => (0u32..128).prop_map(|b| u128::MAX >> b),
        // ids whose hexadecimal text reads like a decimal number (digits 0-9 only), or like a
        // number in scientific / signed / prefixed notation where a letter digit comes in
        1 => "[1-9][0-9]{31}".prop_map(|d| u128::from_str_radix(&d, 16).unwrap()),
        1 => "[0-9]{1,30}".prop_map(|d| u128::from_str_radix(&d, 16).unwrap()),
        1 => "[0-9]{1,14}e[0-9]{1,14}".prop_map(|d| u128::from_str_radix(&d, 16).unwrap()),
    ]
}
fn u64_classes() -> impl Strategy<Value = u64> {
    prop_oneof![
        4 => any::<u64>(),
        1 => Just(0u64),
        1 => Just(1u64),
        1 => Just(u64::MAX),
        1 => any::<u64>().prop_map(|x| x | (1u64 << 63)),
        1 => (0u32..64).prop_map(|b| 1u64 << b),
        1 => (0u32..64).prop_map(|b| u64::MAX >> b),
        1 => "[1-9][0-9]{15}".prop_map(|d| u64::from_str_radix(&d, 16).unwrap()),
        1 => "[0-9]{1,15}".prop_map(|d| u64::from_str_radix(&d, 16).unwrap()),
        1 => "[0-9]{1,7}e[0-9]{1,7}".prop_map(|d| u64::from_str_radix(&d, 16).unwrap()),
    ]
}

/// near-valid traceparents: a canonical string with generated mutations
fn near_valid() -> impl Strategy<Value = (String, u32)> {
    (u128_classes(), u64_classes(), any::<u8>(), proptest::collection::vec((0u8..27, any::<u16>(), any::<u8>()), 0..3)).prop_map(|(t, s, f, muts)| {
        let mut fields: Vec<String> = vec!["00".into(), format!("{:032x}", t), format!("{:016x}", s), format!("{:02x}", f)];
        let mut sep = vec!["-".to_string(); 3];
        let n = muts.len() as u32;
        // length-preserving replacements on the assembled text: k ASCII bytes at any byte offset
        // (also across a separator) become one k-byte character
        let mut post: Vec<(usize, u16, u8)> = vec![];
        for (m, a, b) in muts {
            if m >= 24 {
                post.push((m as usize - 22, a, b));
                continue;
            }
            if fields.is_empty() { break; }
            let fi = (a as usize) % fields.len();
            match m {
                0 => fields[0] = format!("{:02x}", b),                       // other version
                1 => fields[0] = ["", "0", "000", "ff", "0x", " 00"][(b % 6) as usize].into(),
                2 => { fields.push(format!("{:x}", a)); sep.push("-".into()); } // fifth field
                3 => { if fields.len() > 1 { fields.pop(); sep.pop(); } }       // three fields
                4 => fields[fi] = String::new(),                              // empty field
                5 => fields[fi].push(['0', 'f', 'a', '1'][(b % 4) as usize]), // one digit too long
                6 => { fields[fi].pop(); }                                    // one digit short
                7 => fields[fi] = "f".repeat(33 + (b % 40) as usize),         // overflow-length hex
                8 => fields[fi] = fields[fi].to_uppercase(),
                9 => fields[fi] = format!("+{}", fields[fi].chars().skip(1).collect::<String>()), // sign, same length
                10 => fields[fi] = format!("-{}", fields[fi]),
                11 => fields[fi] = format!(" {}", fields[fi]),
                12 => fields[fi].push(' '),
                13 => { let n = fields[fi].chars().count(); let p = (b as usize) % (n + 1); let mut cs: Vec<char> = fields[fi].chars().collect(); cs.insert(p, ['g', 'z', 'x', '٣', '１', 'é', '\0', '_'][(a % 8) as usize]); fields[fi] = cs.into_iter().collect(); }
                14 => fields[fi] = format!("0x{}", fields[fi]),
                15 => { if sep.is_empty() { continue; } let k = ((a as usize) % 3).min(sep.len() - 1); sep[k] = ["--", "", "_", " -", "–"][(b % 5) as usize].into(); }
                16 => fields[fi] = format!("+{}", fields[fi]),               // sign, one longer
                17 => fields[fi] = "0".repeat((b % 50) as usize) + &fields[fi], // leading zeros
                18 => fields[fi] = fields[fi].trim_start_matches('0').to_string(), // stripped zeros
                19 => fields[fi] = "٠١٢٣٤٥٦٧٨٩".chars().take(fields[fi].len().min(10)).collect(),
                20 => { let l = fields.len() - 1; fields[l] = format!("{:x}", b % 16); } // one-digit flags
                21 => fields[fi] = format!("{}\n", fields[fi]),
                _ => {
                    // replace one character of the field by an arbitrary ASCII byte (0..=127)
                    let mut cs: Vec<char> = fields[fi].chars().collect();
                    if !cs.is_empty() {
                        let p = (a as usize / 4) % cs.len();
                        cs[p] = (b % 128) as char;
                        fields[fi] = cs.into_iter().collect();
                    }
                }
            }
        }
        let mut out = String::new();
        for (i, f) in fields.iter().enumerate() {
            if i > 0 {
                out.push_str(sep.get(i - 1).map(|s| s.as_str()).unwrap_or("-"));
            }
            out.push_str(f);
        }
        for (k, a, b) in post {
            if out.len() < k {
                continue;
            }
            let at = (a as usize * (out.len() - k + 1)) >> 16;
            if !out.is_char_boundary(at) || !out.is_char_boundary(at + k) {
                continue;
            }
            let ch = match k {
                2 => ['é', 'ß', '٣', 'Ω'][(b % 4) as usize],
                3 => ['１', '中', '–', '€'][(b % 4) as usize],
                _ => ['😀', '𝔘', '𐍈', '🦀'][(b % 4) as usize],
            };
            debug_assert_eq!(ch.len_utf8(), k);
            out.replace_range(at..at + k, &ch.to_string());
        }
        (out, n)
    })
}

fn case_strategy(variant: &str) -> BoxedStrategy<(Case, bool)> {
    match variant {
        "ctx" => (u128_classes(), u64_classes(), any::<bool>(), 0u8..100)
            .prop_map(|(t, s, b, roll)| {
                if roll == 0 {
                    return (Case::Generated, false);
                }
                if roll == 1 {
                    return (Case::Teardown { trace: format!("{:x}", t), span: format!("{:x}", s), sampled: b }, true);
                }
                let boundary = t == 0 || t == u128::MAX || t.count_ones() == 1 || t >> 127 == 1 || s == 0 || s == u64::MAX || s.count_ones() == 1 || s >> 63 == 1;
                (Case::Ctx { trace: format!("{:x}", t), span: format!("{:x}", s), sampled: b }, boundary)
            })
            .boxed(),
        _ => prop_oneof![
            6 => near_valid().prop_map(|(s, n)| (Case::Text { text: s }, n == 1)),
            1 => ".{0,80}".prop_map(|s| (Case::Text { text: s }, false)),
            1 => "[0-9a-fA-F+ -]{0,70}".prop_map(|s| { let nt = s.split('-').count() == 4; (Case::Text { text: s }, nt) }),
            1 => proptest::collection::vec(any::<char>(), 0..60).prop_map(|v| (Case::Text { text: v.into_iter().collect() }, false)),
        ]
        .boxed(),
    }
}

fn run_case(c: &Case) -> Vec<Viol> {
    match c {
        Case::Ctx { trace, span, sampled } => {
            let t = u128::from_str_radix(trace, 16).unwrap();
            let s = u64::from_str_radix(span, 16).unwrap();
            let mut v = check_context(t, s, *sampled);
            v.extend(check_ids(t, s));
            v
        }
        Case::Text { text } => check_text(text),
        Case::Generated => check_generated_values(),
        Case::Teardown { trace, span, sampled } => check_in_teardown(u128::from_str_radix(trace, 16).unwrap(), u64::from_str_radix(span, 16).unwrap(), *sampled),
    }
}

fn worker(args: &[String]) -> i32 {
    let variant = arg(args, "--variant").unwrap_or("ctx");
    let seed: u64 = arg(args, "--seed").unwrap_or("0").parse().unwrap();
    let wid: u64 = arg(args, "--worker").unwrap_or("0").parse().unwrap();
    let cases: u32 = arg(args, "--cases").unwrap_or("1000").parse().unwrap();
    let out = arg(args, "--out").expect("--out");
    let known: Vec<String> = arg(args, "--known").map(|k| k.split("||").filter(|s| !s.is_empty()).map(|s| s.to_string()).collect()).unwrap_or_default();
    std::panic::set_hook(Box::new(|i| {
        if std::thread::current().name() == Some("main") && i.location().map_or(false, |l| l.file().contains("codec/src/main.rs")) {
            eprintln!("harness panic: {}", i);
        }
    }));
    let strategy = case_strategy(variant);
    let cfg = Config { cases, failure_persistence: None, max_shrink_iters: 20000, ..Config::default() };
    let mut runner = TestRunner::new_with_rng(cfg, TestRng::from_seed(RngAlgorithm::ChaCha, &seed_bytes(seed, wid, variant)));
    let start = std::time::Instant::now();
    let st = std::cell::RefCell::new((0u64, HashSet::<u64>::new(), Vec::<serde_json::Value>::new(), false, BTreeMap::<String, u64>::new(), BTreeMap::<String, u64>::new()));
    let res = runner.run(&strategy, |(c, nontrivial)| {
        let viols = run_case(&c);
        let unknown: Vec<&Viol> = viols.iter().filter(|v| !known.contains(&v.sig)).collect();
        let mut s = st.borrow_mut();
        if !s.3 {
            s.0 += 1;
            for v in &viols {
                if known.contains(&v.sig) {
                    *s.5.entry(v.sig.clone()).or_insert(0) += 1;
                }
            }
            let label = match &c {
                Case::Ctx { .. } => "context".to_string(),
                Case::Generated => "values from random()/default()".to_string(),
                Case::Teardown { .. } => "context, from thread-local destructors".to_string(),
                Case::Text { text } => match reference(text) {
                    Ref::MustNone(w) => format!("text: {}", w),
                    Ref::Values { canonical: true, .. } => "text: canonical".to_string(),
                    Ref::Values { .. } => "text: valid hex, non-canonical".to_string(),
                },
            };
            *s.4.entry(label).or_insert(0) += 1;
            if nontrivial {
                use std::hash::{Hash, Hasher};
                let mut h = std::collections::hash_map::DefaultHasher::new();
                format!("{:?}", c).hash(&mut h);
                if s.1.insert(h.finish()) && s.2.len() < 5 {
                    s.2.push(serde_json::to_value(&c).unwrap());
                }
            }
        }
        if unknown.is_empty() {
            Ok(())
        } else {
            s.3 = true;
            Err(TestCaseError::fail(unknown[0].sig.clone()))
        }
    });
    let s = st.into_inner();
    let mut failure = serde_json::Value::Null;
    if let Err(TestError::Fail(reason, (c, _))) = &res {
        let viols = run_case(c);
        failure = json!({"signature": reason.to_string(), "program": c, "violations": viols.iter().map(|v| json!({"sig": v.sig, "msg": v.msg})).collect::<Vec<_>>()});
    } else if let Err(TestError::Abort(r)) = &res {
        failure = json!({"abort": r.to_string()});
    }
    let mut nt: Vec<u64> = s.1.iter().cloned().collect();
    nt.sort();
    let rule = if variant == "ctx" {
        "contexts (u128,u64,bool) uniform plus boundary classes (0, 1, MAX, top bit, single-bit, low-ones); oracle: encode form, decode(encode(c))==c, independent reading of the encoded fields, TraceId/SpanId Display/FromStr/serde round trips; non-trivial = a component in a boundary class; distinct = hash of the case"
    } else {
        "strings: canonical traceparents with 0-2 generated mutations (23 kinds incl. any ASCII byte at any position: version, field count, empty/long/short/overflow fields, case, signs, whitespace, non-ASCII digits, NUL, separators, leading zeros) plus arbitrary Unicode; oracle: differential against an independent reference parser of the property's sentence, no panic; non-trivial = exactly one mutation away from canonical, or four dash-separated fields over the hex/sign alphabet; distinct = hash of the case"
    };
    let out_json = json!({
        "property": "C12", "variant": variant, "cancelable": false, "seed": seed, "worker": wid,
        "evaluations": s.0, "nontrivial_hashes": nt.iter().map(|h| format!("{:016x}", h)).collect::<Vec<_>>(),
        "labels": s.4, "excluded": {}, "known_hits": s.5, "samples": s.2,
        "records_delivered": 0, "ops_executed": s.0, "ops_skipped": 0, "failure": failure, "rule": rule,
        "wall_s": start.elapsed().as_secs_f64(),
    });
    std::fs::File::create(out).unwrap().write_all(serde_json::to_string(&out_json).unwrap().as_bytes()).unwrap();
    0
}

fn replay(args: &[String]) -> i32 {
    let file = arg(args, "--file").expect("--file");
    let v: serde_json::Value = serde_json::from_str(&std::fs::read_to_string(file).unwrap()).unwrap();
    std::panic::set_hook(Box::new(|_| {}));
    let viols = if let Some(hex) = v.get("bytes_hex").and_then(|h| h.as_str()) {
        let bytes: Vec<u8> = (0..hex.len() / 2).map(|i| u8::from_str_radix(&hex[2 * i..2 * i + 2], 16).unwrap()).collect();
        check_text(&String::from_utf8_lossy(&bytes))
    } else {
        let c: Case = serde_json::from_value(v["program"].clone()).expect("case");
        run_case(&c)
    };
    println!("{}", serde_json::to_string_pretty(&json!({"violations": viols.iter().map(|v| json!({"sig": v.sig, "msg": v.msg})).collect::<Vec<_>>(), "narrative": []})).unwrap());
    if viols.is_empty() { 0 } else { 1 }
}

fn main() {
    let args: Vec<String> = std::env::args().collect();
    std::process::exit(match args.get(1).map(|s| s.as_str()) {
        Some("worker") => worker(&args),
        Some("replay") => replay(&args),
        _ => 2,
    });
}

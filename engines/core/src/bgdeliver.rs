//! C01, "delivery needs no further call": the real background collector thread, started by the
//! real `set_reporter`, with a short report interval; generated programs on plain OS threads
//! finish spans (and exit, or stay alive) and nobody calls flush(). The harness only polls its
//! sink. The schedule of the background thread is not owned by the harness, so the only verdicts
//! are coarse ones that no plausible scheduling delay produces: a record that has not arrived after
//! `DEADLINE` (hundreds of intervals; believed only when it reproduces three times out of
//! three), every record of a case later than 20 intervals (same rule), a record delivered twice, a
//! record nobody finished. Latencies go into the evidence.

use std::sync::atomic::{AtomicBool, AtomicU64, Ordering};
use std::sync::{Arc, Mutex};
use std::future::Future as _;
use std::time::{Duration, Instant};

use fastrace::collector::{Config, Reporter};
use fastrace::prelude::*;
use proptest::prelude::*;
use serde::{Deserialize, Serialize};

pub const DEADLINE: Duration = Duration::from_secs(5);

#[derive(Clone, Debug, Serialize, Deserialize, PartialEq)]
pub enum BgOp {
    /// a whole trace: root created and finished
    Root,
    /// child of the span handed to this thread by the main thread
    Child,
    /// child of the handed-off span and of this thread's own root: delivered once per parent
    Multi,
    /// a local-parent scope on the handed-off span with `n` nested local spans
    Local { n: u8 },
    /// a local-parent scope that also records an event and a property
    LocalEv,
    Pause { us: u16 },
    /// a backlog of `n` cheap commands (events on the handed-off span): the collector spends a
    /// while on this thread's queue
    Backlog { n: u16 },
}

#[derive(Clone, Debug, Serialize, Deserialize, PartialEq)]
pub struct BgThread {
    pub ops: Vec<BgOp>,
    /// the thread returns directly after its last finish (otherwise it stays until delivery)
    pub exit_now: bool,
    /// pause before the thread's first tracing call (its first command registers its queue)
    #[serde(default)]
    pub start_delay_us: u16,
    /// > 0: the thread's first tracing activity is polling, `adapter_polls` times up to completion,
    /// an `in_span` future that was created on the main thread and migrated here (a task picked
    /// up by a fresh worker thread); every poll records one local span
    #[serde(default)]
    pub adapter_polls: u8,
}

/// pending `left` times; every poll records one local span under the current local parent
struct PollN {
    left: u8,
    i: u8,
    name: String,
}
impl std::future::Future for PollN {
    type Output = ();
    fn poll(mut self: std::pin::Pin<&mut Self>, _cx: &mut std::task::Context<'_>) -> std::task::Poll<()> {
        let _l = LocalSpan::enter_with_local_parent(format!("{}-p{}", self.name, self.i));
        self.i += 1;
        if self.left == 0 {
            std::task::Poll::Ready(())
        } else {
            self.left -= 1;
            std::task::Poll::Pending
        }
    }
}

#[derive(Clone, Debug, Serialize, Deserialize, PartialEq)]
pub struct BgCase {
    pub threads: Vec<BgThread>,
    /// the main thread finishes the shared root before (true) or after (false) the wait
    pub finish_root_first: bool,
    /// a pool of threads that have each used tracing once and stay around (a server's worker
    /// threads): many registered queues while the generated threads come and go
    #[serde(default)]
    pub pool: u8,
    /// C07: the reporter itself uses the tracing API inside `report()` (an exporter instrumented
    /// with the library it exports for): each cycle leaves a command in the collector thread's
    /// own queue
    #[serde(default)]
    pub self_tracing: bool,
    /// C07: once the case's records have arrived a thread calls `flush()`; it has to return
    #[serde(default)]
    pub final_flush: bool,
}

pub fn strategy() -> BoxedStrategy<BgCase> {
    strategy_for("C01")
}

/// C13: every generated thread starts by completing a migrated `in_span` future
pub fn strategy_for(prop: &str) -> BoxedStrategy<BgCase> {
    let c07 = prop == "C07";
    let adapters = if prop == "C13" { prop_oneof![1u8..5].boxed() } else { prop_oneof![3 => Just(0u8), 1 => 1u8..4].boxed() };
    let op = prop_oneof![
        3 => Just(BgOp::Root),
        3 => Just(BgOp::Child),
        2 => Just(BgOp::Multi),
        3 => (1u8..5).prop_map(|n| BgOp::Local { n }),
        1 => Just(BgOp::LocalEv),
        2 => prop_oneof![Just(0u16), 1u16..400, 2000u16..30000].prop_map(|us| BgOp::Pause { us }),
        1 => (1500u16..4000).prop_map(|n| BgOp::Backlog { n }),
    ];
    let th = (proptest::collection::vec(op, 1..7), any::<bool>(), prop_oneof![2 => Just(0u16), 3 => 0u16..3000, 1 => 3000u16..15000], adapters)
        .prop_map(|(ops, exit_now, start_delay_us, adapter_polls)| BgThread { ops, exit_now, start_delay_us, adapter_polls });
    (prop_oneof![3 => proptest::collection::vec(th.clone(), 1..4), 1 => proptest::collection::vec(th, 4..9)], any::<bool>(), prop_oneof![8 => Just(0u8), 2 => 32u8..48, 1 => 64u8..80, 1 => 128u8..140])
        .prop_map(move |(threads, finish_root_first, pool)| BgCase { self_tracing: c07 && threads.len() % 2 == 1, final_flush: c07, threads, finish_root_first, pool })
        .boxed()
}

static SINK: Mutex<Vec<(String, Instant)>> = Mutex::new(Vec::new());
static REPORT_CALLS: AtomicU64 = AtomicU64::new(0);
static CASE: AtomicU64 = AtomicU64::new(0);
static INTERVAL_US: AtomicU64 = AtomicU64::new(10_000);

static SELF_TRACING: AtomicBool = AtomicBool::new(false);

struct TimedSink;
impl Reporter for TimedSink {
    fn report(&mut self, spans: Vec<SpanRecord>) {
        REPORT_CALLS.fetch_add(1, Ordering::SeqCst);
        if SELF_TRACING.load(Ordering::SeqCst) {
            // the exporter traces its own work
            drop(Span::root("reporter-own-span", SpanContext::new(TraceId(0x7E57), SpanId(0))));
        }
        let now = Instant::now();
        let mut s = SINK.lock().unwrap();
        for r in spans {
            s.push((r.name.to_string(), now));
        }
    }
}

/// `interval_ms == 0`: `Config::default()` untouched (its documented 10 ms interval)
pub fn install(interval_ms: u64) {
    let cfg = if interval_ms == 0 { Config::default() } else { Config::default().report_interval(Duration::from_millis(interval_ms)) };
    INTERVAL_US.store(if interval_ms == 0 { 10_000 } else { interval_ms * 1000 }, Ordering::SeqCst);
    fastrace::set_reporter(TimedSink, cfg);
}

#[derive(Default, Debug, Clone)]
pub struct BgOutcome {
    pub violations: Vec<(String, String)>,
    /// finish → arrival, per expected record, ns
    pub latencies_ns: Vec<u64>,
    pub expected: usize,
    pub exits: usize,
    /// report() calls (= collector cycles) that happened while the harness waited for delivery
    pub cycles_while_waiting: u64,
}

pub fn run(c: &BgCase) -> BgOutcome {
    let case = CASE.fetch_add(1, Ordering::SeqCst);
    SELF_TRACING.store(c.self_tracing, Ordering::SeqCst);
    let tag = format!("{}y{}z", std::process::id(), case);
    let interval = Duration::from_micros(INTERVAL_US.load(Ordering::SeqCst));
    let base = 0x5000_0000_0000u128 + (case as u128) * 1000;
    let live_root = Span::root(format!("live-{}", tag), SpanContext::new(TraceId(base), SpanId(0)));
    // (name, copies, finished_at)
    let expect: Arc<Mutex<Vec<(String, usize, Instant)>>> = Arc::new(Mutex::new(vec![]));
    let release = Arc::new(AtomicBool::new(false));
    let mut hs = vec![];
    let mut exits = 0;
    // the pool registers first and waits for the end of the case
    let mut pool_hs = vec![];
    let pool_ready = Arc::new(AtomicU64::new(0));
    for k in 0..c.pool {
        let tag2 = tag.clone();
        let expect2 = expect.clone();
        let release2 = release.clone();
        let ready2 = pool_ready.clone();
        pool_hs.push(
            std::thread::Builder::new()
                .name("vt-bg-pool".into())
                .spawn(move || {
                    let name = format!("pool-{}-{}", tag2, k);
                    drop(Span::root(name.clone(), SpanContext::new(TraceId(base + 500 + k as u128), SpanId(0))));
                    expect2.lock().unwrap().push((name, 1, Instant::now()));
                    ready2.fetch_add(1, Ordering::SeqCst);
                    let deadline = Instant::now() + DEADLINE + Duration::from_secs(4);
                    while !release2.load(Ordering::SeqCst) && Instant::now() < deadline {
                        std::thread::sleep(Duration::from_millis(2));
                    }
                })
                .unwrap(),
        );
    }
    {
        let t0 = Instant::now();
        while pool_ready.load(Ordering::SeqCst) < c.pool as u64 && t0.elapsed() < Duration::from_secs(5) {
            std::thread::sleep(Duration::from_micros(200));
        }
    }
    for (t, th) in c.threads.iter().enumerate() {
        let parent = Span::enter_with_parent(format!("handoff-{}-{}", tag, t), &live_root);
        let th = th.clone();
        let tag2 = tag.clone();
        let expect2 = expect.clone();
        let release2 = release.clone();
        if th.exit_now {
            exits += 1;
        }
        // a task created here and completed on the new thread
        let task = if th.adapter_polls > 0 {
            let sp = Span::enter_with_parent(format!("fut-{}-{}", tag, t), &live_root);
            Some(Box::pin(PollN { left: th.adapter_polls - 1, i: 0, name: format!("fut-{}-{}", tag, t) }.in_span(sp)))
        } else {
            None
        };
        hs.push(
            std::thread::Builder::new()
                .name("vt-bg".into())
                .spawn(move || {
                    if th.start_delay_us > 0 {
                        std::thread::sleep(Duration::from_micros(th.start_delay_us as u64));
                    }
                    let mut mine: Vec<(String, usize, Instant)> = vec![];
                    let mut _kept_task = None;
                    if let Some(mut task) = task {
                        let waker = crate::exec::noop_waker();
                        let mut cx = std::task::Context::from_waker(&waker);
                        let mut polls = 0u8;
                        while task.as_mut().poll(&mut cx).is_pending() {
                            polls += 1;
                        }
                        let now = Instant::now();
                        for k in 0..=polls {
                            mine.push((format!("fut-{}-{}-p{}", tag2, t, k), 1, now));
                        }
                        // the adapter object stays alive; the span ended with the completing poll
                        mine.push((format!("fut-{}-{}", tag2, t), 1, now));
                        _kept_task = Some(task);
                    }
                    let own = Span::root(format!("own-{}-{}", tag2, t), SpanContext::new(TraceId(base + 1 + t as u128), SpanId(0)));
                    let mut backlog_left = 9000usize;
                    for (i, op) in th.ops.iter().enumerate() {
                        let name = format!("s{}-{}-{}", t, tag2, i);
                        match op {
                            BgOp::Root => {
                                drop(Span::root(name.clone(), SpanContext::new(TraceId(base + 100 + (t * 10 + i) as u128), SpanId(0))));
                                mine.push((name, 1, Instant::now()));
                            }
                            BgOp::Child => {
                                drop(Span::enter_with_parent(name.clone(), &parent));
                                mine.push((name, 1, Instant::now()));
                            }
                            BgOp::Multi => {
                                drop(Span::enter_with_parents(name.clone(), [&parent, &own]));
                                mine.push((name, 2, Instant::now()));
                            }
                            BgOp::Local { n } => {
                                {
                                    let _g = parent.set_local_parent();
                                    let mut open = vec![];
                                    for k in 0..*n {
                                        open.push(LocalSpan::enter_with_local_parent(format!("{}-l{}", name, k)));
                                    }
                                    while let Some(l) = open.pop() {
                                        drop(l);
                                    }
                                }
                                let now = Instant::now();
                                for k in 0..*n {
                                    mine.push((format!("{}-l{}", name, k), 1, now));
                                }
                            }
                            BgOp::LocalEv => {
                                {
                                    let _g = own.set_local_parent();
                                    let _l = LocalSpan::enter_with_local_parent(name.clone()).with_property(|| ("k", "v"));
                                    LocalSpan::add_event(Event::new("ev"));
                                }
                                mine.push((name, 1, Instant::now()));
                            }
                            BgOp::Pause { us } => std::thread::sleep(Duration::from_micros(*us as u64)),
                            BgOp::Backlog { n } => {
                                let n = (*n as usize).min(backlog_left);
                                backlog_left -= n;
                                for _ in 0..n {
                                    parent.add_event(Event::new("f"));
                                }
                            }
                        }
                    }
                    drop(parent);
                    mine.push((format!("handoff-{}-{}", tag2, t), 1, Instant::now()));
                    drop(own);
                    mine.push((format!("own-{}-{}", tag2, t), 1, Instant::now()));
                    expect2.lock().unwrap().extend(mine);
                    if !th.exit_now {
                        let deadline = Instant::now() + DEADLINE + Duration::from_secs(2);
                        while !release2.load(Ordering::SeqCst) && Instant::now() < deadline {
                            std::thread::sleep(Duration::from_millis(1));
                        }
                    }
                })
                .unwrap(),
        );
    }
    let mut live_root = Some(live_root);
    if c.finish_root_first {
        drop(live_root.take());
        expect.lock().unwrap().push((format!("live-{}", tag), 1, Instant::now()));
    }
    // join the threads that exit by themselves (the others wait for `release`)
    let mut waiting = vec![];
    for (h, th) in hs.into_iter().zip(c.threads.iter()) {
        if th.exit_now {
            let _ = h.join();
        } else {
            waiting.push(h);
        }
    }
    // the staying threads have recorded their expectations once their count matches
    let want_threads = c.threads.len();
    let t0 = Instant::now();
    loop {
        let n = expect.lock().unwrap().iter().filter(|(n, _, _)| n.starts_with("own-")).count();
        if n >= want_threads || t0.elapsed() > Duration::from_secs(10) {
            break;
        }
        std::thread::sleep(Duration::from_micros(200));
    }
    if let Some(r) = live_root.take() {
        drop(r);
        expect.lock().unwrap().push((format!("live-{}", tag), 1, Instant::now()));
    }
    let expected = expect.lock().unwrap().clone();
    // no flush(): only poll
    let count = |sink: &Vec<(String, Instant)>, name: &str| sink.iter().filter(|(n, _)| n == name).count();
    let start = Instant::now();
    let calls_at_start = REPORT_CALLS.load(Ordering::SeqCst);
    let mut all = false;
    while start.elapsed() < DEADLINE {
        {
            let s = SINK.lock().unwrap();
            all = expected.iter().all(|(n, k, _)| count(&s, n) >= *k);
        }
        if all {
            break;
        }
        std::thread::sleep(Duration::from_millis(1));
    }
    let mut out = BgOutcome { expected: expected.len(), exits, ..Default::default() };
    out.cycles_while_waiting = REPORT_CALLS.load(Ordering::SeqCst) - calls_at_start;
    if c.final_flush {
        // flush() waits for one collector cycle: with a 10 ms interval and an idle program it is
        // back within milliseconds; a call still not back after 8 s is blocked on the collector
        let done = Arc::new(AtomicBool::new(false));
        let d2 = done.clone();
        let t0 = Instant::now();
        let h = std::thread::spawn(move || {
            fastrace::flush();
            d2.store(true, Ordering::SeqCst);
        });
        while !done.load(Ordering::SeqCst) && t0.elapsed() < Duration::from_secs(8) {
            std::thread::sleep(Duration::from_millis(1));
        }
        if done.load(Ordering::SeqCst) {
            let _ = h.join();
        } else {
            out.violations.push((
                "blocked:flush-does-not-return".into(),
                format!("flush() called while the background collector runs with a {} ms interval (reporter uses the tracing API itself: {}) had not returned after 8 s; {} report calls so far", interval.as_millis(), c.self_tracing, REPORT_CALLS.load(Ordering::SeqCst)),
            ));
        }
    }
    SELF_TRACING.store(false, Ordering::SeqCst);
    // duplicates would come with a later cycle
    std::thread::sleep(interval * 3);
    release.store(true, Ordering::SeqCst);
    for h in waiting {
        let _ = h.join();
    }
    for h in pool_hs {
        let _ = h.join();
    }
    let mut s = SINK.lock().unwrap();
    for (n, k, fin) in &expected {
        let got: Vec<Instant> = s.iter().filter(|(m, _)| m == n).map(|(_, t)| *t).collect();
        if got.len() < *k {
            out.violations.push((
                "no-flush:not-delivered".into(),
                format!(
                    "span {:?} finished {} ms ago, nobody called flush(): {} of {} copies reported after {} report intervals ({} report calls so far, {} of them while waiting){}",
                    n,
                    fin.elapsed().as_millis(),
                    got.len(),
                    k,
                    DEADLINE.as_micros() / interval.as_micros().max(1),
                    REPORT_CALLS.load(Ordering::SeqCst),
                    out.cycles_while_waiting,
                    if all { "" } else { "; gave up waiting" }
                ),
            ));
        } else if got.len() > *k {
            out.violations.push(("no-flush:delivered-twice".into(), format!("span {:?} reported {} times, expected {}", n, got.len(), k)));
        } else {
            let last = got.iter().max().unwrap();
            out.latencies_ns.push(last.saturating_duration_since(*fin).as_nanos() as u64);
        }
    }
    // "within about one report interval": judged only coarsely, every record of the case took
    // more than 20 intervals (and the caller re-runs the case before believing it)
    if let Some(min) = out.latencies_ns.iter().min() {
        if out.violations.is_empty() && *min > 20 * interval.as_nanos() as u64 {
            out.violations.push((
                "no-flush:latency-above-20-intervals".into(),
                format!("the fastest of {} records was reported {} ms after its span finished; the report interval is {} ms", out.latencies_ns.len(), min / 1_000_000, interval.as_millis()),
            ));
        }
    }
    let needle = format!("-{}", tag);
    for (n, _) in s.iter() {
        if n.contains(&needle) && !expected.iter().any(|(m, _, _)| m == n) {
            out.violations.push(("no-flush:unknown-record".into(), format!("record {:?} was reported but no such span was finished", n)));
        }
    }
    s.clear();
    out
}

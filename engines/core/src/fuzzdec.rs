//! Decoder from libFuzzer bytes to (program, schedule): the coverage-guided counterpart of the
//! proptest strategies. Every byte string decodes to an executable program (construction, no
//! rejection), so the fuzzer spends its time in the library, not in input validation.

use crate::prog::*;

struct R<'a> {
    b: &'a [u8],
    p: usize,
}
impl<'a> R<'a> {
    fn u8(&mut self) -> u8 {
        let v = self.b.get(self.p).copied().unwrap_or(0);
        self.p += 1;
        v
    }
    fn u16(&mut self) -> u16 {
        let a = self.u8() as u16;
        let b = self.u8() as u16;
        (a << 8) | b
    }
    fn done(&self) -> bool {
        self.p >= self.b.len()
    }
}

fn seed(x: u8) -> StrSeed {
    StrSeed { c: x % 3, l: x / 16 }
}

/// layout: [flags][cycles] then ops: [kind][arg][arg] ... 0xFF = next thread, 0xFE = schedule follows
/// flags: bit0 cancelable, bit1 fine-grained collector yields, bit2 extended operation table,
/// bit3 queues are registered with the first command (vthreads may be born during a cycle)
pub fn program_from_bytes(data: &[u8], allow_fill: bool) -> Program {
    let mut r = R { b: data, p: 0 };
    let flags = r.u8();
    let cancelable = flags & 1 == 1;
    let fine = flags & 2 == 2;
    let extended = flags & 4 == 4;
    let lazy_reg = flags & 8 == 8;
    let cycles = r.u8() % 7;
    let mut threads: Vec<Vec<Op>> = vec![vec![]];
    let mut schedule = vec![];
    while !r.done() {
        let k = r.u8();
        if k == 0xFF {
            if threads.len() < 4 {
                threads.push(vec![]);
            }
            continue;
        }
        if k == 0xFE {
            while !r.done() && schedule.len() < 60 {
                let c = r.u8();
                let l = r.u8() % 11 + 1;
                schedule.push((c, l));
            }
            break;
        }
        let a = r.u8();
        let b = r.u8();
        let sel = ((a as u16) << 8) | b as u16;
        let cur = threads.last_mut().unwrap();
        if cur.len() >= 16 {
            continue;
        }
        let op = match if extended { k % 27 } else { k % 22 } {
            22 => Op::Volley { n: 1 + (a as u16 % 130) * 2 },
            23 => Op::PopGuard { collect: a % 2 == 0, early: false, unwind: true },
            24 => Op::PushChildSpans { span: sel, set: b as u16 * 257, last: true },
            25 => Op::Churn { k: 1 + a % 3 },
            26 => Op::CtxOfSpan { span: sel },
            0 | 1 => Op::Root { tc: 0, tr: 0, pc: 0, pr: 0, sampled: a % 8 != 0, np: b % 2, s: seed(b) },
            2 | 3 => Op::Child { parents: vec![sel], np: 0, s: seed(b) },
            4 => Op::Child { parents: vec![sel, sel.rotate_left(5)], np: 0, s: seed(b) },
            5 => Op::ChildOfLocal { np: 0, s: seed(b) },
            6 | 7 => Op::SetLocalParent { span: sel, probe: false },
            8 | 9 => Op::EnterLocal { np: a % 2, s: seed(b), probe: false, re: vec![] },
            10 | 11 => Op::PopGuard { collect: true, early: false, unwind: false },
            12 | 13 | 14 => Op::Finish { span: sel },
            15 => Op::Cancel { span: sel },
            16 => Op::AddEvent { handle: Some(sel), n: a % 2, s: seed(b), re: vec![] },
            17 => Op::AddProps { handle: Some(sel), n: 1, s: seed(b), re: vec![] },
            18 => Op::AddEvent { handle: None, n: 0, s: seed(b), re: vec![] },
            19 => Op::Flush,
            20 => Op::Exit,
            _ => {
                if allow_fill && a % 4 == 0 {
                    Op::Fill { leave: b % 3 }
                } else if a % 4 == 1 {
                    Op::Bulk { n: 4000 + (b as u16) * 8 }
                } else if a % 4 == 2 {
                    Op::CollectorStart { probe: false }
                } else {
                    Op::PushChildSpans { span: sel, set: r.u16(), last: false }
                }
            }
        };
        cur.push(op);
    }
    Program { cancelable, threads, cycles, schedule, fine, pool: 0, lazy_reg, idle_cycles: 0 }
}

pub const KNOWN: &[&str] = &[
    "trace-lost:inconsistent-cut",
    "must-set-missing:inconsistent-cut",
    "cancelled-trace-delivered:inconsistent-cut",
    "cancelled-trace-delivered:exit-with-full-queue",
    "cancelled-trace-delivered:parked-cancel-overtaken",
    "default-config:attachment-lost:inconsistent-cut",
    "retained-after-quiescence:start-after-commit",
    "active-collectors-exceed-live-traces:start-after-commit",
];

/// run one fuzzer input under the hooked scheduler with the schedule-level oracles
/// (C01 default config, C03/C04 cancelable, C08 retained state, C02 tree); returns the program
/// and the violations whose signature is not a known finding
pub fn check_bytes(data: &[u8]) -> (Program, crate::world::Hist, Vec<crate::oracle::Viol>) {
    use crate::exec::{run_case, ExecOpts, Mode};
    use crate::oracle::{self, Index};
    let prog = program_from_bytes(data, false);
    let mut opts = ExecOpts::new(Mode::Sched);
    opts.stats = true;
    opts.exclude = vec!["dup_unit_attach"];
    let h = run_case(&prog, &opts);
    let v = {
        let ix = Index::new(&h);
        let mut v = vec![];
        if !h.cancelable {
            v.extend(oracle::c01_api(&ix));
        }
        v.extend(oracle::c04(&ix));
        v.extend(oracle::c08(&ix));
        v.extend(oracle::c02(&ix, false));
        v.extend(oracle::c07(&h));
        v.into_iter().filter(|x| !KNOWN.contains(&x.sig.as_str())).collect()
    };
    (prog, h, v)
}

//! Per-property configuration: generator profile, execution options, oracle, non-triviality rule.

use std::collections::HashSet;

use crate::exec::{ExecOpts, Mode};
use crate::oracle::{self, Index, Viol};
use crate::prog::*;
use crate::world::*;

pub struct PropSpec {
    pub id: &'static str,
    pub profile: Profile,
    pub opts: ExecOpts,
    pub oracle: fn(&Hist) -> Vec<Viol>,
    pub nontrivial: fn(&Hist) -> bool,
    pub rule: &'static str,
}

fn depth_of(h: &Hist, p: PRef, fuel: u32) -> u32 {
    if fuel == 0 {
        return 0;
    }
    match p {
        PRef::Remote(_) => 0,
        PRef::Span(s) => 1 + h.spans[s].items.first().map(|i| depth_of(h, i.parent, fuel - 1)).unwrap_or(0),
        PRef::Local(l) => {
            let lo = &h.locals[l];
            match lo.parent {
                Some(p) => 1 + depth_of(h, PRef::Local(p), fuel - 1),
                None => match &h.scopes[lo.scope].kind {
                    ScopeKind::Parent { span, .. } => 1 + depth_of(h, PRef::Span(*span), fuel - 1),
                    ScopeKind::Collector => 1,
                },
            }
        }
    }
}

pub fn max_depth(h: &Hist) -> u32 {
    let mut d = 0;
    for s in 0..h.spans.len() {
        if !h.spans[s].noop {
            d = d.max(depth_of(h, PRef::Span(s), 64));
        }
    }
    for l in 0..h.locals.len() {
        d = d.max(depth_of(h, PRef::Local(l), 64));
    }
    d
}

fn delivered(h: &Hist) -> usize {
    h.batches.iter().map(|b| b.records.len()).sum()
}

fn multi_same_trace(h: &Hist) -> bool {
    h.spans.iter().any(|s| {
        let mut seen = HashSet::new();
        s.items.iter().filter(|i| i.sampled).any(|i| !seen.insert(i.trace))
    })
}

fn nt_c02(h: &Hist) -> bool {
    if delivered(h) < 3 || max_depth(h) < 3 {
        return false;
    }
    let child_of_local_nested = h.spans.iter().any(|s| s.how == "child_of_local" && s.items.iter().any(|i| matches!(i.parent, PRef::Local(_))));
    let finish_reordered = {
        let mut f: Vec<(T, usize)> = h.spans.iter().enumerate().filter(|(_, s)| !s.noop).filter_map(|(i, s)| s.finish_t.map(|t| (t.0, i))).collect();
        f.sort();
        f.windows(2).any(|w| w[0].1 > w[1].1) && f.len() >= 3
    };
    let sibling_after_nested = h.locals.iter().enumerate().any(|(i, l)| {
        // an earlier sibling with a child
        (0..i).any(|j| h.locals[j].scope == l.scope && h.locals[j].parent == l.parent && (0..h.locals.len()).any(|k| h.locals[k].parent == Some(j)))
    });
    child_of_local_nested || finish_reordered || sibling_after_nested || multi_same_trace(h)
}

fn cycle_inside_a_trace(h: &Hist) -> bool {
    // a collector cycle strictly between the creation and the finish of some sampled root
    h.spans.iter().any(|s| {
        s.is_root
            && !s.noop
            && s.items.iter().any(|i| i.sampled)
            && s.finish_t.map_or(false, |f| h.cycles.iter().any(|c| c.t0 > s.create_t.1 && c.t1.map_or(false, |t1| t1 < f.0)))
    })
}

fn nt_c01(h: &Hist) -> bool {
    let vts = h.vts.iter().filter(|v| v.ops_done > 0).count();
    let handoff = h.labels.contains_key("handoff_finish");
    let exit_after_finish = h.spans.iter().any(|s| {
        !s.noop && s.finish_t.map_or(false, |f| s.finish_vt.map_or(false, |vt| h.vts[vt].exit_t.map_or(false, |e| e.0 <= f.1 + 3)))
    });
    delivered(h) >= 2 && vts >= 2 && (handoff || exit_after_finish) && cycle_inside_a_trace(h)
}

fn nt_c01_sched(h: &Hist) -> bool {
    let vts = h.vts.iter().filter(|v| v.ops_done > 0).count();
    let handoff = h.labels.contains_key("handoff_finish");
    let exit_after_finish = h.spans.iter().any(|s| {
        !s.noop && s.finish_t.map_or(false, |f| s.finish_vt.map_or(false, |vt| h.vts[vt].exit_t.map_or(false, |e| e.0 <= f.1 + 3)))
    });
    delivered(h) >= 1 && vts >= 2 && (handoff || exit_after_finish) && h.cycles.iter().any(|c| c.interleaved > 0)
}

fn must_member_other_vt(h: &Hist) -> bool {
    h.spans.iter().enumerate().any(|(u, r)| {
        r.is_root && !r.noop && r.finish_t.is_some() && {
            let rf = r.finish_t.unwrap();
            h.spans.iter().any(|s| !s.noop && s.items.iter().any(|i| i.unit == u && i.sampled) && s.finish_t.map_or(false, |f| f.1 < rf.0) && s.finish_vt != r.finish_vt)
        }
    })
}

fn nt_c03(h: &Hist) -> bool {
    delivered(h) >= 2 && must_member_other_vt(h) && h.cycles.iter().any(|c| c.interleaved > 0)
}

fn nt_c03_api(h: &Hist) -> bool {
    delivered(h) >= 3
        && h.spans.iter().enumerate().any(|(u, r)| {
            r.is_root && !r.noop && r.finish_t.map_or(false, |rf| {
                let members: Vec<T> = h.spans.iter().filter(|s| !s.noop && !s.is_root && s.items.iter().any(|i| i.unit == u && i.sampled)).filter_map(|s| s.finish_t).filter(|f| f.1 < rf.0).map(|f| f.1).collect();
                members.len() >= 2 && members.iter().any(|m| h.cycles.iter().any(|c| c.t0 > *m && c.t1.map_or(false, |t1| t1 < rf.0)))
            })
        })
}

fn nt_c04(h: &Hist) -> bool {
    h.spans.iter().enumerate().any(|(u, r)| {
        if r.cancel_t.is_empty() || r.noop {
            return false;
        }
        let c = r.cancel_t[0];
        if h.cancelable && r.is_root {
            let unfinished_elsewhere = h.spans.iter().any(|s| !s.noop && !s.is_root && s.items.iter().any(|i| i.unit == u) && s.create_t.1 < c.0 && s.finish_t.map_or(true, |f| f.0 > c.1) && s.finish_vt != r.finish_vt);
            let cycle_between = r.finish_t.map_or(false, |f| h.cycles.iter().any(|cy| cy.t0 > c.1 && cy.t1.map_or(false, |t1| t1 < f.0)));
            unfinished_elsewhere || cycle_between || h.labels.contains_key("fill")
        } else {
            // no-op cancel: an attachment parked across a cycle before it
            h.atts.iter().any(|a| a.route == Route::Handle && a.t.1 < c.0 && h.cycles.iter().any(|cy| cy.t0 > a.t.1 && cy.t1.map_or(false, |t1| t1 < c.0)))
        }
    })
}

fn nt_c08(h: &Hist) -> bool {
    let cross = h.spans.iter().any(|r| r.is_root && !r.noop && r.finish_vt.map_or(false, |f| f != r.create_vt) && h.cycles.iter().any(|c| c.interleaved > 0));
    let exit_queued = h.vts.iter().any(|v| v.exit_t.is_some() && v.ops_done > 0) && h.cycles.iter().any(|c| c.interleaved > 0);
    !h.stats.is_empty() && (cross || exit_queued)
}

fn o_c09(h: &Hist) -> Vec<Viol> {
    oracle::c09(&Index::new(h))
}

fn nt_c09(h: &Hist) -> bool {
    let full_push = h.hooks.iter().position(|e| matches!(e.kind, HookKind::BeforePush { free: 0, .. }));
    match full_push {
        Some(i) => {
            let t = h.hooks[i].t;
            let later_op = h.hooks.iter().skip(i + 1).any(|e| matches!(e.kind, HookKind::Command { .. }));
            later_op && h.cycles.iter().any(|c| c.t0 > t)
        }
        None => false,
    }
}

fn nt_c09_limits(h: &Hist) -> bool {
    h.limit_hit && (h.labels.contains_key("burst") || h.labels.contains_key("nest"))
}

fn o_c16_disabled(h: &Hist) -> Vec<Viol> {
    let mut out = oracle::c16(&Index::new(h));
    let calls = crate::exec::REPORT_CALLS.load(std::sync::atomic::Ordering::SeqCst);
    if calls != 0 || h.batches.iter().any(|b| !b.records.is_empty()) {
        out.push(Viol { prop: "C16", sig: "disabled:reporter-called".into(), msg: format!("the reporter was called {} times in a build without the enable feature", calls) });
    }
    if h.convs.iter().any(|c| !c.records.is_empty()) {
        out.push(Viol { prop: "C16", sig: "disabled:to_span_records".into(), msg: "to_span_records returned records in a build without the enable feature".into() });
    }
    if h.closures.iter().any(|c| c.invoked) {
        out.push(Viol { prop: "C16", sig: "disabled:closure-invoked".into(), msg: "a property closure was invoked in a build without the enable feature".into() });
    }
    // the worker's main thread only (vthreads of the case are joined; a joined thread may take a
    // moment to disappear from /proc, so look at the names and retry briefly)
    let names = || -> Vec<String> {
        std::fs::read_dir("/proc/self/task")
            .map(|d| d.filter_map(|e| e.ok()).filter_map(|e| std::fs::read_to_string(e.path().join("comm")).ok()).map(|s| s.trim().to_string()).collect())
            .unwrap_or_default()
    };
    let mut extra: Vec<String> = vec![];
    for _ in 0..200 {
        extra = names().into_iter().filter(|n| !n.starts_with("vt") && n != "fr-core" && n != "hang-monitor").collect();
        if extra.is_empty() {
            break;
        }
        std::thread::sleep(std::time::Duration::from_millis(1));
    }
    if !extra.is_empty() {
        out.push(Viol { prop: "C16", sig: "disabled:thread-spawned".into(), msg: format!("threads {:?} exist after the case; a disabled build must not spawn any", extra) });
    }
    // threads that were created and already joined again (e.g. by flush()) leave no trace in
    // /proc: count them through the process-wide ThreadId counter
    if h.thread_ids_used != h.threads_spawned_by_harness {
        out.push(Viol { prop: "C16", sig: "disabled:thread-created".into(), msg: format!("{} OS threads were created during the case, the harness itself spawned {}: a build without the enable feature must not create threads", h.thread_ids_used, h.threads_spawned_by_harness) });
    }
    out.extend(oracle::c07(h).into_iter().map(|mut v| {
        v.prop = "C16";
        v
    }));
    out
}

fn nt_c16_disabled(h: &Hist) -> bool {
    let apis: HashSet<&str> = h.closures.iter().map(|c| c.api).collect();
    apis.len() >= 3
}

fn o_c13(h: &Hist) -> Vec<Viol> {
    oracle::c13(&Index::new(h), "C13", false)
}
fn o_c13_sched(h: &Hist) -> Vec<Viol> {
    oracle::c13(&Index::new(h), "C13", true)
}
fn o_c14(h: &Hist) -> Vec<Viol> {
    oracle::c13(&Index::new(h), "C14", false)
}
fn o_c14_sched(h: &Hist) -> Vec<Viol> {
    oracle::c13(&Index::new(h), "C14", true)
}

fn nt_c13(h: &Hist) -> bool {
    h.adapters.iter().any(|a| {
        let mig = a.polls.windows(2).any(|w| w[0].vt != w[1].vt);
        let dropped_early = a.dropped_t.is_some() && a.done_t.is_none() && !a.polls.is_empty();
        let entries: HashSet<String> = a.polls.iter().map(|p| format!("{:?}", p.entry)).collect();
        let finishing_records = a.polls.iter().any(|p| p.finishing && p.scope.map_or(false, |sc| h.locals.iter().any(|l| l.scope == sc)));
        (a.polls.len() >= 2 && mig) || dropped_early || (a.polls.len() >= 3 && entries.len() >= 2) || finishing_records
    }) || h.labels.contains_key("nested_poll")
}

fn nt_c13_sched(h: &Hist) -> bool {
    // a collector step inside the completing call
    h.adapters.iter().any(|a| {
        a.polls.iter().any(|p| p.finishing && h.hooks.iter().any(|e| e.t > p.t.0 && e.t < p.t.1 && matches!(e.kind, HookKind::BeforeDrain { .. } | HookKind::Received { .. })))
    }) || (nt_c13(h) && h.cycles.iter().any(|c| c.interleaved > 0))
}

fn o_c03(h: &Hist) -> Vec<Viol> {
    oracle::c03(&Index::new(h), "C03")
}
fn o_c04(h: &Hist) -> Vec<Viol> {
    oracle::c04(&Index::new(h))
}
fn o_c08(h: &Hist) -> Vec<Viol> {
    oracle::c08(&Index::new(h))
}

fn nt_c05(h: &Hist) -> bool {
    let mixed = h.spans.iter().any(|s| s.items.iter().any(|i| i.sampled) && s.items.iter().any(|i| !i.sampled));
    let unsampled_units: Vec<usize> = h.spans.iter().enumerate().filter(|(_, s)| s.is_root && !s.noop && s.items.iter().all(|i| !i.sampled)).map(|(i, _)| i).collect();
    let rich = unsampled_units.iter().any(|u| {
        let mut hows: HashSet<&str> = HashSet::new();
        let mut n = 0;
        for s in &h.spans {
            if s.items.iter().any(|i| i.unit == *u) && !s.is_root {
                n += 1;
                hows.insert(s.how);
            }
        }
        for sc in &h.scopes {
            if let ScopeKind::Parent { items, .. } = &sc.kind {
                if items.iter().any(|i| i.unit == *u) {
                    n += 1;
                    hows.insert("scope");
                }
            }
        }
        n >= 3 && hows.len() >= 2
    });
    delivered(h) >= 1 && (mixed || rich)
}

fn nt_c06(h: &Hist) -> bool {
    h.atts.iter().any(|a| {
        if a.route == Route::Creation {
            return false;
        }
        let (fin, nonroot, other_vt) = match a.target {
            ARef::Span(s) => (h.spans[s].finish_t, !h.spans[s].is_root, h.spans[s].create_vt != a.vt),
            ARef::Local(l) => (h.scopes[h.locals[l].scope].close_t, true, false),
            ARef::ScopeRoot(sc) => match &h.scopes[sc].kind {
                ScopeKind::Parent { span, .. } => (h.spans[*span].finish_t, !h.spans[*span].is_root, h.spans[*span].create_vt != a.vt),
                _ => (None, false, false),
            },
        };
        let Some(f) = fin else { return false };
        let cycle_between = h.cycles.iter().any(|c| c.t0 > a.t.1 && c.t1.map_or(false, |t1| t1 < f.0));
        cycle_between && (nonroot || other_vt)
    }) && delivered(h) >= 1
}

fn nt_c10(h: &Hist) -> bool {
    let deep_mixed = h.probes.iter().any(|p| p.depth >= 3 && (p.kinds & 3) == 3);
    let shadow = h.scopes.iter().any(|s| matches!(s.kind, ScopeKind::Collector) && s.depth >= 1);
    let mut groups: std::collections::HashMap<(usize, u64), usize> = std::collections::HashMap::new();
    for p in &h.probes {
        *groups.entry((p.vt, p.ctx_ver)).or_insert(0) += 1;
    }
    let compared_deep = h.probes.iter().any(|p| p.depth >= 2 && groups[&(p.vt, p.ctx_ver)] >= 2);
    h.probes.len() >= 2 && (deep_mixed || (shadow && groups.values().any(|c| *c >= 2)) || compared_deep)
}

fn nt_c11(h: &Hist) -> bool {
    let interesting_ctx = h.ctxs.iter().any(|c| c.obs.is_some() && (c.open_locals >= 1 || c.multi_parent));
    let remote_delivered = h.spans.iter().any(|s| {
        (s.how == "remote_root" || s.how == "remote_root_tp") && h.batches.iter().any(|b| b.records.iter().any(|r| r.name.as_ref() == s.name))
    });
    interesting_ctx && remote_delivered
}

fn nt_c17(h: &Hist) -> bool {
    h.sets.iter().enumerate().any(|(si, set)| {
        let locals: Vec<usize> = (0..h.locals.len()).filter(|l| h.locals[*l].scope == set.scope).collect();
        let atts = h.atts.iter().any(|a| a.scope == Some(set.scope) || matches!(a.target, ARef::Local(l) if locals.contains(&l)));
        let pushes = h.pushes.iter().filter(|p| p.set == si && h.spans[p.span].items.iter().any(|i| i.sampled)).count();
        let open = locals.iter().any(|l| h.locals[*l].open_at_collect);
        (locals.len() >= 3 && atts && pushes >= 2) || (open && (pushes >= 1 || h.convs.iter().any(|c| c.set == si)))
    })
}

fn nt_c18(h: &Hist) -> bool {
    let spun = h.spans.iter().any(|s| {
        !s.noop
            && s.br.f0 > s.br.c1 + 20_000
            && s.finish_t.map_or(false, |f| h.cycles.iter().any(|c| c.t0 > s.create_t.1 && c.t1.map_or(false, |t1| t1 < f.0)))
    });
    let nest_event = h.atts.iter().any(|a| matches!((&a.kind, a.target), (AKind::Event { .. }, ARef::Local(l)) if h.locals[l].depth >= 1));
    delivered(h) >= 1 && (spun || nest_event)
}

fn nt_c07(h: &Hist) -> bool {
    h.labels.contains_key("reentrant_closure")
        || h.labels.contains_key("burst")
        || h.labels.contains_key("nest")
        || h.labels.contains_key("fill")
        || h.scopes.iter().any(|s| matches!(&s.kind, ScopeKind::Parent { items, .. } if items.is_empty()))
        || h.spans.iter().any(|s| !s.noop && s.items.is_empty())
}

fn nt_c16(h: &Hist) -> bool {
    let apis: HashSet<&str> = h.closures.iter().filter(|c| !c.recording).map(|c| c.api).collect();
    apis.len() >= 3
}

fn o_c01(h: &Hist) -> Vec<Viol> {
    oracle::c01_api(&Index::new(h))
}
fn o_c01_overload(h: &Hist) -> Vec<Viol> {
    if h.cancelable {
        return vec![];
    }
    oracle::omissions_only_permitted(&Index::new(h), "C01").0
}
fn o_c02(h: &Hist) -> Vec<Viol> {
    oracle::c02(&Index::new(h), true)
}
fn o_c05(h: &Hist) -> Vec<Viol> {
    oracle::c05(&Index::new(h))
}
fn o_c06(h: &Hist) -> Vec<Viol> {
    oracle::c06(&Index::new(h))
}
fn o_c10(h: &Hist) -> Vec<Viol> {
    let ix = Index::new(h);
    let mut out = oracle::c10(&ix);
    // "as seen through current_local_parent()": inside every scope, the polls of an in_span
    // future included, the context is that of the innermost local parent
    out.extend(oracle::c11(&ix).into_iter().filter(|x| x.sig.starts_with("current_local_parent")).map(|mut x| {
        x.prop = "C10";
        x.sig = format!("inside-scope:{}", x.sig);
        x
    }));
    out
}
fn o_c11(h: &Hist) -> Vec<Viol> {
    oracle::c11(&Index::new(h))
}
fn o_c17(h: &Hist) -> Vec<Viol> {
    oracle::c17(&Index::new(h))
}
fn o_c18(h: &Hist) -> Vec<Viol> {
    oracle::c18(&Index::new(h))
}
fn o_c07(h: &Hist) -> Vec<Viol> {
    oracle::c07(h)
}
fn o_c16(h: &Hist) -> Vec<Viol> {
    oracle::c16(&Index::new(h))
}

pub fn spec(id: &str, variant: &str, cancelable: bool, thorough: bool) -> Option<PropSpec> {
    let api = ExecOpts::new(Mode::Api);
    let big = |p: Profile| -> Profile {
        if thorough {
            Profile {
                ops: (p.ops.0, p.ops.1 * 3 / 2),
                sched_len: (p.sched_len.0, p.sched_len.1 * 3 / 2),
                threads: (p.threads.0, p.threads.1 + 1),
                ..p
            }
        } else {
            p
        }
    };
    let mut base = Profile::base();
    base.cancelable = Some(cancelable);
    Some(match (id, variant) {
        ("C01", "api") => PropSpec {
            id: "C01",
            profile: big(Profile {
                threads: (2, 4),
                ops: (0, 14),
                cycles: (1, 6),
                templates: vec![(1, Template::PoolHandoff)],
                pool_pct: 3,
                ..base.clone().set(&[
                    (K::Bulk, 1),
                    (K::CollectorStart, 3),
                    (K::PushChildSpans, 4),
                    (K::Flush, 4),
                    (K::Exit, 2),
                    (K::AddEventL, 2),
                    (K::RootFromCtx, 1),
                    (K::CtxOfSpan, 1),
                ])
            }),
            opts: ExecOpts { ..api.clone() },
            oracle: o_c01,
            nontrivial: nt_c01,
            rule: "programs of 2-4 vthreads over root/child/multi-parent/local-scope/push/flush ops with generated op-granularity schedule and real flush() cycles; non-trivial = >=2 vthreads active, a span handed off between vthreads or a thread exit right after a finish, and a collector cycle strictly inside a sampled trace; distinct = hash of the executed model shape",
        },
        ("C01", "sched") => PropSpec {
            id: "C01",
            profile: big(Profile {
                threads: (2, 4),
                ops: (0, 10),
                cycles: (0, 6),
                sched_len: (0, 40),
                templates: vec![(2, Template::CrossQueue), (1, Template::FanIn)],
                idle_pct: 2,
                ..base.clone().set(&[
                    (K::Bulk, 2),
                    (K::CollectorStart, 2),
                    (K::PushChildSpans, 3),
                    (K::Flush, 3),
                    (K::Exit, 4),
                    (K::AddEventL, 1),
                    (K::Finish, 18),
                ])
            }),
            opts: ExecOpts::new(Mode::Sched),
            oracle: o_c01,
            nontrivial: nt_c01_sched,
            rule: "programs of 2-4 vthreads (roots, children, multi-parent, local scopes, hand-off finishes, thread exit) with a generated schedule at yield-point granularity: before every ring push, before every receiver drain and between an empty pop and the abandonment check; non-trivial = >=2 vthreads active, a hand-off or a thread exit right after a finish, and >=1 step of another vthread interleaved inside a collector cycle; distinct = hash of the executed model shape and schedule",
        },
        // C01's permitted omissions are exactly the span sets submitted while the submitting
        // thread's queue was full: ring-fill episodes in the default configuration, everything
        // submitted outside an overload window must still arrive exactly once
        ("C01", "overload") => PropSpec {
            id: "C01",
            profile: big(Profile {
                threads: (1, 3),
                ops: (0, 14),
                cycles: (1, 8),
                sched_len: (0, 40),
                cancelable: Some(false),
                templates: vec![(3, Template::OverflowReplay), (2, Template::FullThenTrace)],
                ..base.clone().set(&[
                    (K::Fill, 10),
                    (K::Volley, 2),
                    (K::Finish, 18),
                    (K::Root, 14),
                    (K::Child, 12),
                    (K::Exit, 2),
                    (K::Flush, 4),
                    (K::AddEventL, 2),
                ])
            }),
            opts: ExecOpts {
                exclude: vec!["dup_unit_attach"],
                ..ExecOpts::new(Mode::Sched)
            },
            oracle: o_c01_overload,
            nontrivial: nt_c09,
            rule: "default configuration with ring-fill episodes (leave 0-3 slots free) at generated points: roots started, children created and handed to other vthreads and spans finished while a queue is full, cycles placed by the schedule, more spans of the same traces finished after the queue was drained; a record may be missing only if its own submit was pushed inside an overload window of the submitting vthread; non-trivial = >=1 command pushed while free==0 followed by >=1 further operation and a collector cycle; distinct = hash of the executed model shape and schedule",
        },
        ("C03", "sched") => PropSpec {
            id: "C03",
            profile: big(Profile {
                threads: (2, 4),
                ops: (0, 10),
                cycles: (0, 6),
                sched_len: (0, 40),
                cancelable: Some(true),
                templates: vec![(2, Template::CrossQueue), (4, Template::FanIn)],
                idle_pct: 3,
                ..base.clone().set(&[
                    (K::Bulk, 3),
                    (K::Volley, 1),
                    (K::CollectorStart, 2),
                    (K::PushChildSpans, 3),
                    (K::Flush, 2),
                    (K::Exit, 3),
                    (K::Finish, 18),
                    (K::Child, 14),
                ])
            }),
            opts: ExecOpts::new(Mode::Sched),
            oracle: o_c03,
            nontrivial: nt_c03,
            rule: "cancelable(true); programs of 2-4 vthreads whose spans finish on arbitrary vthreads before the root does (ordered by the baton's real happens-before), schedule at yield-point granularity (ring pushes, receiver drains, empty-pop/abandon gap); non-trivial = a must-set member finished on another vthread than the root's finishing vthread and a step of another vthread inside a collector cycle; distinct = hash of the executed model shape and schedule",
        },
        ("C03", "api") => PropSpec {
            id: "C03",
            profile: big(Profile {
                threads: (1, 3),
                ops: (0, 20),
                cycles: (0, 6),
                cancelable: Some(true),
                templates: vec![(4, Template::FanIn), (1, Template::PoolHandoff)],
                pool_pct: 2,
                ..base.clone().set(&[
                    (K::Bulk, 1), (K::Volley, 2), (K::Burst, 1), (K::Many, 1), (K::CollectorStart, 2), (K::PushChildSpans, 3), (K::Flush, 5), (K::Exit, 2), (K::Finish, 16)])
            }),
            opts: api.clone(),
            oracle: o_c03,
            nontrivial: nt_c03_api,
            rule: "cancelable(true); same programs at operation granularity with real flush() cycles; non-trivial = a trace with >=2 must-set members and a cycle between a member's finish and the root's finish",
        },
        ("C04", "sched") => PropSpec {
            id: "C04",
            profile: big(Profile {
                threads: (2, 4),
                ops: (0, 10),
                cycles: (0, 6),
                sched_len: (0, 40),
                cancelable: Some(cancelable),
                templates: if cancelable { vec![(3, Template::CrossQueue), (1, Template::FanIn), (2, Template::OverflowReplay)] } else { vec![(3, Template::CrossQueue), (1, Template::FanIn)] },
                idle_pct: 2,
                ..base.clone().set(&[
                    (K::Bulk, 1),
                    (K::Cancel, 9),
                    (K::MultiChild, 6),
                    (K::CollectorStart, 2),
                    (K::PushChildSpans, 4),
                    (K::Flush, 2),
                    (K::Exit, 3),
                    (K::Finish, 16),
                    (K::AddPropsH, 3),
                    (K::AddEventH, 3),
                    (K::Fill, if cancelable { 2 } else { 0 }),
                    (K::Volley, if cancelable { 2 } else { 0 }),
                ])
            }),
            opts: ExecOpts {
                exclude: vec!["dup_unit_attach"],
                ..ExecOpts::new(Mode::Sched)
            },
            oracle: o_c04,
            nontrivial: nt_c04,
            rule: "programs that cancel roots at arbitrary points (children in flight on other vthreads, cycles between cancel and finish, multi-parent spans and pushed sets shared with live traces, ring-full episodes around the cancel/finish pair, thread exit with parked commands); default config and non-root/no-op targets as no-op cancels; non-trivial = a cancel with >=1 span of the trace unfinished on another vthread, or a cycle between cancel and finish, or the ring full at cancel/finish, or (no-op cancel) an attachment parked across a cycle before it; distinct = hash of the executed model shape and schedule",
        },
        ("C04", "api") => PropSpec {
            id: "C04",
            profile: big(Profile {
                threads: (1, 3),
                ops: (0, 22),
                cycles: (0, 6),
                cancelable: Some(cancelable),
                ..base.clone().set(&[
                    (K::Cancel, 9),
                    (K::MultiChild, 6),
                    (K::CollectorStart, 2),
                    (K::PushChildSpans, 4),
                    (K::Flush, 6),
                    (K::AddPropsH, 6),
                    (K::AddEventH, 6),
                    (K::AddEventL, 3),
                ])
            }),
            opts: ExecOpts {
                exclude: vec!["dup_unit_attach"],
                ..api.clone()
            },
            oracle: o_c04,
            nontrivial: nt_c04,
            rule: "same at operation granularity with real flush() cycles",
        },
        ("C08", "sched") => PropSpec {
            id: "C08",
            profile: big(Profile {
                threads: (2, 5),
                ops: (0, 10),
                cycles: (0, 8),
                sched_len: (0, 40),
                cancelable: Some(cancelable),
                templates: vec![(3, Template::CrossQueue), (2, Template::FullExit)],
                idle_pct: 3,
                ..base.clone().set(&[
                    (K::Bulk, 1),
                    (K::Root, 16),
                    (K::SetLocalParent, 8),
                    (K::CtxOfLocal, 4),
                    (K::CtxOfSpan, 2),
                    (K::RootFromCtx, 5),
                    (K::Cancel, 4),
                    (K::Exit, 4),
                    (K::Finish, 20),
                    (K::AddPropsH, 3),
                    (K::AddEventH, 3),
                    (K::AddEventL, 2),
                    (K::Flush, 2),
                ])
            }),
            opts: ExecOpts {
                stats: true,
                ..ExecOpts::new(Mode::Sched)
            },
            oracle: o_c08,
            nontrivial: nt_c08,
            rule: "histories of trace starts/finishes/cancels and vthread births/exits (2-5 vthreads, roots started and finished through different vthreads' queues), both configs, collector cycles cut anywhere by the schedule; collector_stats() sampled whenever the collector is idle and at quiescence; non-trivial = a trace whose start and commit/drop travel through different receivers with a cycle step between them, or a vthread exit with commands still queued; distinct = hash of the executed model shape and schedule",
        },
        ("C09", "sched") => PropSpec {
            id: "C09",
            profile: big(Profile {
                threads: (1, 3),
                ops: (0, 14),
                cycles: (1, 8),
                sched_len: (0, 40),
                cancelable: Some(cancelable),
                templates: vec![(3, Template::OverflowReplay), (1, Template::OverloadPush)],
                ..base.clone().set(&[
                    (K::Fill, 10),
                    (K::Volley, 4),
                    (K::Cancel, 6),
                    (K::Finish, 18),
                    (K::Root, 12),
                    (K::Exit, 2),
                    (K::Flush, 3),
                    (K::AddEventH, 3),
                    (K::AddPropsH, 2),
                    (K::AddEventL, 2),
                    (K::CollectorStart, 3),
                    (K::EnterLocal, 8),
                    (K::PushChildSpans, 6),
                    (K::Burst, 0),
                ])
            }),
            opts: ExecOpts {
                stats: true,
                exclude: vec!["dup_unit_attach"],
                ..ExecOpts::new(Mode::Sched)
            },
            oracle: o_c09,
            nontrivial: nt_c09,
            rule: "fault injection: ring-fill episodes (leave 0-3 slots free) at generated points, then a generated mix of operations during the episode (finish, cancel, root start, scopes, attachments, thread exit) and recovery cycles placed by the generated schedule; directed template 'overflow replay' (fill, cancel, finish, cycle, further sends) mixed with free generation; non-trivial = >=1 command pushed while free==0 followed by >=1 further operation and a collector cycle; distinct = hash of the executed model shape and schedule",
        },
        ("C09", "limits") => PropSpec {
            id: "C09",
            profile: Profile {
                threads: (1, 2),
                ops: (2, 14),
                cycles: (0, 2),
                cancelable: Some(cancelable),
                templates: vec![(3, Template::ScopeFull)],
                ..base.clone().set(&[
                    (K::Burst, 9),
                    (K::Nest, 4),
                    (K::EnterLocal, 16),
                    (K::AddEventL, 5),
                    (K::AddPropsL, 4),
                    (K::ChildOfLocal, 5),
                    (K::SetLocalParent, 14),
                    (K::CollectorStart, 3),
                    (K::PushChildSpans, 2),
                ])
            },
            opts: ExecOpts {
                exclude: vec!["dup_unit_attach"],
                ..api.clone()
            },
            oracle: o_c09,
            nontrivial: nt_c09_limits,
            rule: "scope-limit episodes: a scope is filled to 10240-25+k entries (k in 0..60; local spans, events or properties) or scopes are nested to 4096-20+k, followed by further generated local operations; non-trivial = a limit was hit and >=1 further operation followed; distinct = hash of the executed model shape",
        },
        ("C02", _) => PropSpec {
            id: "C02",
            profile: big(Profile {
                threads: (1, 3),
                ops: (0, 30),
                max_parents: 5,
                unique_traces: false,
                // closures handed to the attachment calls may draw ids themselves (open local
                // spans, create spans) while the call is in progress
                reentrant: true,
                ..base.clone().set(&[
                    (K::EnterLocal, 18),
                    (K::AddPropsH, 4),
                    (K::AddEventH, 2),
                    (K::Many, 2),
                    // a long-lived worker thread: tens of thousands of scopes opened and closed before
                    (K::Churn, 1),
                    (K::ChildOfLocal, 9),
                    (K::MultiChild, 7),
                    (K::Flush, 3),
                    (K::CollectorStart, 2),
                    (K::PushChildSpans, 3),
                    (K::RootFromCtx, 2),
                    (K::CtxOfSpan, 2),
                ])
            }),
            opts: ExecOpts {
                unique_traces: false,
                ..api.clone()
            },
            oracle: o_c02,
            nontrivial: nt_c02,
            rule: "well-scoped programs (nested local spans, nested local-parent scopes, children with 0..5 parents across/within traces, hand-off finishes, flush at any op boundary, trace/parent id classes small/random/top-bit/MAX/0); non-trivial = >=3 records, tree depth >=3 and one of: child span created under an open local span, finish order != creation order, sibling opened after a nested local span closed, multi-parent span with two parents in one trace; distinct = hash of the executed model shape",
        },
        ("C05", _) => PropSpec {
            id: "C05",
            profile: big(Profile {
                threads: (1, 3),
                ops: (0, 28),
                p_sampled: 0.5,
                // spans of unsampled traces also travel inside future/stream/sink adapters that
                // are polled under sampled scopes
                adapter_kinds: vec![AdapterKind::InSpan, AdapterKind::InSpanEnterOnPoll, AdapterKind::EnterOnPoll, AdapterKind::Stream, AdapterKind::Sink, AdapterKind::TracedBoxed, AdapterKind::TracedBoxed],
                ..base.clone().set(&[
                    (K::Wrap, 5),
                    (K::Drive, 10),
                    (K::DropAdapter, 1),
                    (K::MultiChild, 8),
                    (K::ChildOfLocal, 8),
                    (K::AddPropsH, 3),
                    (K::AddPropsL, 6),
                    (K::AddEventH, 3),
                    // every local entry point, the deprecated one included, inside scopes of
                    // unsampled spans nested in scopes of sampled ones
                    (K::AddEventL, 9),
                    (K::SetLocalParent, 16),
                    (K::CollectorStart, 3),
                    (K::PushChildSpans, 5),
                    (K::CtxOfSpan, 5),
                    (K::CtxOfLocal, 5),
                    (K::RootFromCtx, 4),
                    (K::Flush, 2),
                ])
            }),
            opts: ExecOpts {
                exclude: vec![],
                ..api.clone()
            },
            oracle: o_c05,
            nontrivial: nt_c05,
            rule: "programs mixing sampled and unsampled roots (p=1/2) with descendants through every path (children 1..n parents, enter_with_local_parent, local spans, handle/local attachments, push_child_spans, extracted contexts, remote children); non-trivial = an unsampled root with >=3 descendants through >=2 distinct paths, or a span whose parents mix sampled and unsampled traces; distinct = hash of the executed model shape",
        },
        ("C06", _) => PropSpec {
            id: "C06",
            profile: big(Profile {
                threads: (1, 3),
                ops: (0, 28),
                cycles: (0, 6),
                str_classes: 0b0011_1111,
                templates: vec![(1, Template::PoolHandoff)],
                pool_pct: 3,
                // closures passed to the attachment calls may use the tracing API themselves
                reentrant: true,
                ..base.clone().set(&[
                    (K::AddPropsH, 10),
                    (K::AddPropsL, 8),
                    (K::AddEventH, 10),
                    (K::AddEventL, 8),
                    // a second root in the trace of a live one (a detached task continuing a trace)
                    (K::CtxOfSpan, 3),
                    (K::CtxOfLocal, 1),
                    (K::RootFromCtx, 4),
                    (K::MultiChild, 5),
                    (K::Flush, 6),
                    (K::CollectorStart, 2),
                    (K::PushChildSpans, 3),
                    (K::Cancel, 1),
                ])
            }),
            opts: ExecOpts {
                exclude: vec!["dup_unit_attach"],
                ..api.clone()
            },
            oracle: o_c06,
            nontrivial: nt_c06,
            rule: "programs attaching properties/events at creation, through the handle from any vthread and through the local parent, with arbitrary Unicode keys/values/names (empty, NUL, 4-byte, ~10KB) and real flush() cycles at any op boundary; non-trivial = >=1 later attachment with a collector cycle strictly between it and its target's finish, issued by another vthread or targeting a non-root span; distinct = hash of the executed model shape",
        },
        ("C10", _) => PropSpec {
            id: "C10",
            profile: big(Profile {
                threads: (1, 2),
                ops: (0, 40),
                p_sampled: 0.75,
                adapter_kinds: vec![AdapterKind::InSpan, AdapterKind::InSpanEnterOnPoll],
                ..base.clone().set(&[
                    (K::Churn, 3),
                    (K::Burst, 2),
                    (K::Many, 2),
                    (K::SetLocalParent, 14),
                    (K::EnterLocal, 16),
                    (K::CollectorStart, 8),
                    (K::PopGuard, 26),
                    (K::Probe, 14),
                    (K::Finish, 4),
                    (K::ChildOfLocal, 4),
                    (K::Root, 8),
                    (K::Child, 6),
                    (K::Nest, 0),
                    // scopes opened by polling an in_span future (bound to sampled and unsampled
                    // spans), and the context asked for inside every kind of scope
                    (K::Wrap, 3),
                    (K::Drive, 8),
                    (K::CtxOfLocal, 6),
                ])
            }),
            opts: ExecOpts {
                exclude: vec![],
                auto_probe: true,
                ..api.clone()
            },
            oracle: o_c10,
            nontrivial: nt_c10,
            rule: "well-nested sequences of set_local_parent / LocalSpan::enter / LocalCollector::start and guard drops on 1-2 vthreads, with context probes (current_local_parent, a probe span, a probe event) before opens, after closes and at generated points; non-trivial = probes at depth >=3 with both scope kinds, or a collector shadowing an outer scope with a compared pair, or a compared pair of probes at depth >=2; distinct = hash of the executed model shape",
        },
        ("C11", "sched") => {
            // the same extraction programs with full-queue episodes and cycles cut by the schedule:
            // what from_span / current_local_parent return does not depend on the queue's state
            let mut sp = spec("C11", "api", cancelable, thorough).unwrap();
            sp.profile.cycles = (1, 6);
            sp.profile.sched_len = (0, 40);
            sp.profile.ops = (0, 16);
            sp.profile.cancelable = Some(cancelable);
            sp.profile.templates = vec![(2, Template::Extract), (2, Template::OverflowReplay)];
            sp.profile = sp.profile.set(&[(K::Fill, 8), (K::Root, 12), (K::Finish, 10), (K::CtxOfSpan, 14), (K::Exit, 1)]);
            sp.opts = ExecOpts { unique_traces: false, ..ExecOpts::new(Mode::Sched) };
            sp.rule = "the same extraction programs under the hooked scheduler with ring-fill episodes (roots created while the thread's command queue is full) and cycles cut by the schedule; non-trivial as for the api variant";
            sp
        }
        ("C11", _) => PropSpec {
            id: "C11",
            profile: big(Profile {
                threads: (1, 3),
                ops: (0, 28),
                unique_traces: false,
                // extraction inside a scope that is filled to its limit (local spans attempted
                // there are omitted; the context is still that of the innermost recorded one)
                templates: vec![(4, Template::Extract), (1, Template::ScopeFull)],
                ..base.clone().set(&[
                    (K::CtxOfSpan, 10),
                    (K::CtxOfLocal, 12),
                    (K::RootFromCtx, 12),
                    (K::MultiChild, 6),
                    (K::CollectorStart, 2),
                    (K::Noop, 2),
                    (K::Flush, 2),
                ])
            }),
            opts: ExecOpts {
                exclude: vec![],
                unique_traces: false,
                ..api.clone()
            },
            oracle: o_c11,
            nontrivial: nt_c11,
            rule: "programs extracting contexts with from_span/current_local_parent at every kind of program point (nesting, multi-parent, no-op, empty-token, id classes incl. 0/top-bit/MAX) followed by remote roots created directly or through a traceparent round trip; non-trivial = an extraction with >=1 open local span or from a multi-parent span, and a remote child delivered; distinct = hash of the executed model shape",
        },
        ("C17", _) => PropSpec {
            id: "C17",
            profile: big(Profile {
                threads: (1, 2),
                ops: (0, 36),
                templates: vec![(5, Template::Forest)],
                ..base.clone().set(&[
                    (K::CollectorStart, 12),
                    (K::EnterLocal, 22),
                    (K::PopGuard, 24),
                    (K::AddEventL, 7),
                    (K::AddPropsL, 7),
                    (K::PushChildSpans, 16),
                    (K::ToSpanRecords, 7),
                    (K::MultiChild, 4),
                    (K::SetLocalParent, 2),
                    (K::ChildOfLocal, 0),
                    (K::Flush, 6),
                    // attachments parked in the collector for other spans of the same traces
                    // while the copies of a set are converted
                    (K::AddEventH, 5),
                    (K::AddPropsH, 3),
                    (K::Finish, 8),
                    (K::Many, 1),
                ])
            }),
            opts: ExecOpts {
                brackets: true,
                exclude: vec!["dup_unit_attach"],
                ..api.clone()
            },
            oracle: o_c17,
            nontrivial: nt_c17,
            rule: "local-span forests captured under LocalCollector::start (any shape, events/properties, 0-3 spans open at collect()), pushed to 1-6 parents (roots, children, multi-parent, unsampled/no-op) and converted with to_span_records for generated contexts; non-trivial = forest of >=3 spans with >=1 event/property pushed to >=2 sampled parents, or >=1 span open at collection that is pushed or converted; distinct = hash of the executed model shape",
        },
        // the same timing oracle with the collector's cycle cut into steps: spans created, spun in
        // and finished while a cycle is between two queues (each cycle converts with the clock
        // reading it took)
        ("C18", "sched") => {
            let mut sp = spec("C18", "api", cancelable, thorough).unwrap();
            sp.profile.threads = (2, 3);
            sp.profile.ops = (0, 12);
            sp.profile.cycles = (1, 5);
            sp.profile.sched_len = (4, 40);
            sp.profile.templates = vec![];
            sp.profile = sp.profile.set(&[(K::Many, 0), (K::Flush, 2), (K::Spin, 18), (K::Root, 12), (K::Finish, 18)]);
            sp.opts = ExecOpts { brackets: true, ..ExecOpts::new(Mode::Sched) };
            sp.rule = "the same programs under the hooked scheduler: 2-3 vthreads, spins of 0-300us, collector cycles cut at every queue by the generated schedule, so that spans begin, spin and finish while a cycle is in progress; non-trivial as for the api variant";
            sp
        }
        ("C18", _) => PropSpec {
            id: "C18",
            profile: big(Profile {
                threads: (1, 2),
                ops: (0, 24),
                max_spin_us: 300,
                // a scope filled to its limit: spans closed (and time spent) afterwards
                templates: vec![(1, Template::ScopeFull)],
                // spans bound to futures end when the future completes (or is dropped earlier)
                adapter_kinds: vec![AdapterKind::InSpan, AdapterKind::InSpanEnterOnPoll],
                ..base.clone().set(&[
                    (K::Wrap, 4),
                    (K::Drive, 9),
                    (K::DropAdapter, 1),
                    (K::Many, 1),
                    (K::Spin, 14),
                    (K::Elapsed, 6),
                    (K::EnterLocal, 16),
                    (K::AddEventL, 8),
                    (K::AddEventH, 4),
                    (K::Flush, 5),
                    (K::CollectorStart, 7),
                    (K::PushChildSpans, 8),
                    (K::ToSpanRecords, 2),
                ])
            }),
            opts: ExecOpts {
                brackets: true,
                ..api.clone()
            },
            oracle: o_c18,
            nontrivial: nt_c18,
            rule: "programs with busy-wait spins (0-300us) between and inside spans, flushes anywhere, spans open across cycles, events, elapsed() queries; non-trivial = a span with >=20us inside it that finished >=1 cycle after it began, or a local nest of depth >=2 with an event; distinct = hash of the executed model shape",
        },
        ("C07", "api") => PropSpec {
            id: "C07",
            profile: big(Profile {
                threads: (1, 2),
                ops: (0, 26),
                reentrant: true,
                ..base.clone().set(&[
                    (K::Churn, 1),
                    (K::DecodeText, 3),
                    (K::MultiChild, 8),
                    (K::Noop, 5),
                    (K::AddPropsH, 6),
                    (K::AddPropsL, 8),
                    (K::AddEventH, 6),
                    (K::AddEventL, 8),
                    (K::CtxOfLocal, 8),
                    (K::CtxOfSpan, 4),
                    (K::CollectorStart, 4),
                    (K::PushChildSpans, 3),
                    (K::ToSpanRecords, 2),
                    (K::Cancel, 3),
                    (K::Elapsed, 2),
                    (K::Flush, 2),
                    (K::TraceFn, 5),
                    (K::Probe, 3),
                    (K::RootFromCtx, 2),
                ])
            }),
            opts: ExecOpts { ..api.clone() },
            oracle: o_c07,
            nontrivial: nt_c07,
            rule: "API call sequences over all public entry points incl. re-entrant mini programs run from inside property/event closures, empty and all-no-op parent sets (also set as local parent), no-op/unsampled spans, no local parent; non-trivial = the case enters one of: re-entrant closure, empty-token span or scope, scope-limit burst, nesting-limit; distinct = hash of the executed model shape",
        },
        ("C07", "noreporter") => {
            let mut sp = spec("C07", "api", cancelable, thorough).unwrap();
            sp.opts.reporter_ready = false;
            sp.rule = "same call sequences in a fresh process in which no reporter was ever installed (every span is a no-op, flush() has no collector); non-trivial as for the api variant";
            sp
        }
        ("C07", "limits") => {
            let mut sp = spec("C09", "limits", cancelable, thorough).unwrap();
            sp.id = "C07";
            sp.oracle = o_c07;
            sp.nontrivial = nt_c07;
            sp
        }
        ("C07", "sched") => PropSpec {
            id: "C07",
            profile: big(Profile {
                threads: (1, 3),
                ops: (0, 14),
                cycles: (0, 4),
                sched_len: (0, 30),
                reentrant: true,
                templates: vec![(1, Template::ParkedBacklog)],
                ..base.clone().set(&[
                    (K::Fill, 8),
                    (K::Cancel, 4),
                    (K::MultiChild, 4),
                    (K::AddPropsH, 4),
                    (K::AddPropsL, 4),
                    (K::AddEventH, 4),
                    (K::AddEventL, 4),
                    (K::CtxOfLocal, 3),
                    (K::Flush, 2),
                    (K::Exit, 2),
                    (K::PushChildSpans, 2),
                    (K::CollectorStart, 2),
                ])
            }),
            opts: ExecOpts::new(Mode::Sched),
            oracle: o_c07,
            nontrivial: nt_c07,
            rule: "call sequences with ring-fill episodes (full command queue) under the hooked scheduler, incl. re-entrant closures; every operation must complete within its own steps (an operation that needed another vthread would deadlock the scheduler); non-trivial = a fill episode or a re-entrant closure occurred",
        },
        ("C13", v_) | ("C14", v_) => {
            let c13 = id == "C13";
            let sched = v_ == "sched";
            let kinds = if c13 {
                vec![AdapterKind::InSpan, AdapterKind::InSpan, AdapterKind::EnterOnPoll, AdapterKind::InSpanEnterOnPoll, AdapterKind::TracedBoxed]
            } else {
                vec![AdapterKind::Stream, AdapterKind::Stream, AdapterKind::Sink, AdapterKind::Sink, AdapterKind::DuplexViaStream, AdapterKind::DuplexViaSink, AdapterKind::StreamTwice, AdapterKind::SinkTwice]
            };
            PropSpec {
                id: if c13 { "C13" } else { "C14" },
                profile: big(Profile {
                    threads: (1, 3),
                    ops: (0, if sched { 12 } else { 22 }),
                    cycles: (0, 5),
                    sched_len: (0, if sched { 40 } else { 24 }),
                    adapter_kinds: kinds,
                    templates: if sched { vec![] } else { vec![(1, Template::PoolAdapter)] },
                    pool_pct: if sched { 0 } else { 2 },
                    ..base.clone().set(&[
                        (K::Wrap, 12),
                        (K::Drive, 30),
                        (K::DropAdapter, 4),
                        (K::Root, 12),
                        (K::Child, 8),
                        (K::MultiChild, 2),
                        (K::Noop, 1),
                        (K::SetLocalParent, 6),
                        (K::EnterLocal, 5),
                        (K::PopGuard, 8),
                        (K::Finish, 5),
                        (K::Flush, if sched { 2 } else { 6 }),
                        (K::ChildOfLocal, 2),
                    ])
                }),
                opts: ExecOpts {
                    auto_probe: true,
                    brackets: true,
                    exclude: vec!["dup_unit_attach"],
                    ..if sched { ExecOpts::new(Mode::Sched) } else { api.clone() }
                },
                oracle: if c13 {
                    if sched { o_c13_sched } else { o_c13 }
                } else if sched {
                    o_c14_sched
                } else {
                    o_c14
                },
                nontrivial: if sched { nt_c13_sched } else { nt_c13 },
                rule: if c13 {
                    "scripted inner futures (generated list of polls, each a list of local-span/event/child-span/context/nested-poll actions ending Pending or Ready) wrapped by in_span(span) / enter_on_poll(name) / both, driven by explicit poll operations with a no-op waker from generated vthreads (migration), dropped before completion or kept alive after it, with flush() cycles (api) or collector steps inside the final poll (sched); non-trivial = >=2 polls with a vthread migration, or drop before completion, or a nested adapter poll, or (sched) a step of the collector inside the completing poll; distinct = hash of the executed model shape"
                } else {
                    "scripted inner streams and sinks wrapped by fastrace_futures in_span, arbitrary call sequences on poll_next / poll_ready / start_send / poll_flush / poll_close (incl. calls after the end), from any vthread, dropped at any point; non-trivial = >=3 calls on >=2 entry points or a completing call that records >=1 local span, or (sched) a collector step inside the completing call; distinct = hash of the executed model shape"
                },
            }
        }
        ("C16", "disabled") => {
            let mut sp = spec("C16", "api", cancelable, thorough).unwrap();
            sp.oracle = o_c16_disabled;
            sp.nontrivial = nt_c16_disabled;
            sp.profile = sp.profile.set(&[(K::CollectorStart, 4), (K::PushChildSpans, 3), (K::ToSpanRecords, 3), (K::CtxOfLocal, 4), (K::Flush, 3), (K::Root, 12), (K::RootFromCtx, 2)]);
            sp.rule = "the full operation language compiled against fastrace WITHOUT the enable feature: every closure passed to the library counts its invocations; oracle: zero report() calls, no context/elapsed/records, no closure invoked, #[trace] functions return their values; non-trivial = >=3 distinct closure-taking entry points exercised";
            sp
        }
        ("C16", "noreporter") => {
            let mut sp = spec("C16", "api", cancelable, thorough).unwrap();
            sp.opts.reporter_ready = false;
            sp.profile.p_sampled = 0.5;
            sp.profile = sp.profile.set(&[(K::Root, 14), (K::RootFromCtx, 3), (K::CtxOfLocal, 4), (K::Noop, 3)]);
            sp.rule = "the same call sequences in a fresh process in which no reporter has been installed yet (half of the roots from unsampled contexts, some from decoded traceparent headers): every span is created before a reporter is installed, so none records: no context, no elapsed(), no closure invoked, nothing delivered; non-trivial as for the api variant";
            sp
        }
        ("C16", "api") => PropSpec {
            id: "C16",
            profile: big(Profile {
                threads: (1, 2),
                ops: (0, 26),
                p_sampled: 0.8,
                // TracedBoxed: a #[trace(properties)] function returning a boxed future; its property belongs
                // to the call (often made with nothing in scope) and must not be evaluated by a later
                // poll under somebody else's recording scope
                adapter_kinds: vec![AdapterKind::InSpan, AdapterKind::InSpanEnterOnPoll, AdapterKind::EnterOnPoll, AdapterKind::Stream, AdapterKind::Sink, AdapterKind::TracedBoxed, AdapterKind::TracedBoxed],
                ..base.clone().set(&[
                    (K::Noop, 10),
                    (K::Child, 12),
                    (K::MultiChild, 6),
                    (K::AddPropsH, 8),
                    (K::AddPropsL, 10),
                    (K::AddEventH, 4),
                    (K::AddEventL, 4),
                    (K::EnterLocal, 16),
                    (K::SetLocalParent, 8),
                    (K::CtxOfSpan, 3),
                    (K::Elapsed, 3),
                    (K::TraceFn, 5),
                    (K::Root, 4),
                    // a manual LocalCollector scope has no parent span: spans created from "the
                    // local parent" inside it record nothing, with or without open local spans
                    (K::CollectorStart, 6),
                    (K::ChildOfLocal, 10),
                    (K::CtxOfLocal, 2),
                    (K::PushChildSpans, 2),
                    // futures bound to non-recording spans: local operations inside their polls
                    (K::Wrap, 5),
                    (K::Drive, 9),
                    (K::DropAdapter, 1),
                ])
            }),
            opts: ExecOpts {
                exclude: vec![],
                ..api.clone()
            },
            oracle: o_c16,
            nontrivial: nt_c16,
            rule: "API call sequences in which spans derive from no-op spans and local operations run with no local parent, every property closure instrumented with a counter; non-trivial = >=3 distinct closure-taking entry points exercised on a non-recording object; distinct = hash of the executed model shape",
        },
        _ => return None,
    })
}

pub fn shape_hash(h: &Hist) -> u64 {
    use std::hash::{Hash, Hasher};
    let mut hs = std::collections::hash_map::DefaultHasher::new();
    h.trace_hash.hash(&mut hs);
    h.cancelable.hash(&mut hs);
    for s in &h.spans {
        s.how.hash(&mut hs);
        s.noop.hash(&mut hs);
        s.items.len().hash(&mut hs);
        for i in &s.items {
            i.parent.hash(&mut hs);
            i.sampled.hash(&mut hs);
            i.unit.hash(&mut hs);
        }
        s.finish_vt.hash(&mut hs);
        s.cancel_t.len().hash(&mut hs);
    }
    for l in &h.locals {
        l.scope.hash(&mut hs);
        l.parent.hash(&mut hs);
        l.open_at_collect.hash(&mut hs);
    }
    for a in &h.atts {
        a.target.hash(&mut hs);
        a.route.hash(&mut hs);
        a.vt.hash(&mut hs);
    }
    for p in &h.pushes {
        p.span.hash(&mut hs);
        p.set.hash(&mut hs);
    }
    for b in &h.batches {
        b.records.len().hash(&mut hs);
    }
    h.cycles.len().hash(&mut hs);
    h.probes.len().hash(&mut hs);
    h.ctxs.len().hash(&mut hs);
    for a in &h.adapters {
        a.polls.len().hash(&mut hs);
        for p in &a.polls {
            p.vt.hash(&mut hs);
            p.finishing.hash(&mut hs);
        }
    }
    hs.finish()
}

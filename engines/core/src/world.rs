//! The reference model and the history of one executed case. The model is updated in lockstep
//! with the interpreter from the *documented* semantics only; what the library reports is stored
//! separately (records, observed contexts) and compared by the oracles.

use fastrace::prelude::SpanRecord;
use std::collections::{BTreeMap, HashSet};

pub type T = u32; // logical time

#[derive(Clone, Copy, Debug, PartialEq, Eq, Hash)]
pub enum PRef {
    Remote(u64),
    Span(usize),
    Local(usize),
}

#[derive(Clone, Debug)]
pub struct MItem {
    pub trace: u128,
    pub parent: PRef,
    /// collection unit = model index of the root span that started it
    pub unit: usize,
    pub sampled: bool,
}

#[derive(Clone, Debug, Default)]
pub struct Bracket {
    /// fastant instants as ns since case start: before/after the creating call
    pub c0: u64,
    pub c1: u64,
    /// before/after the finishing call (0 = not finished)
    pub f0: u64,
    pub f1: u64,
}

#[derive(Clone, Debug)]
pub struct MSpan {
    pub name: String,
    pub noop: bool,
    pub is_root: bool,
    pub items: Vec<MItem>,
    pub create_vt: usize,
    pub create_t: (T, T),
    pub finish_vt: Option<usize>,
    pub finish_t: Option<(T, T)>,
    /// begin time of cancel() calls on this span
    pub cancel_t: Vec<(T, T)>,
    pub cancel_vt: Vec<usize>,
    pub br: Bracket,
    /// span id as reported by SpanContext::from_span right after creation (fallback only)
    pub api_id: Option<u64>,
    /// how the span was made (for classification)
    pub how: &'static str,
    /// the span was moved into an adapter
    pub in_adapter: Option<usize>,
    pub pre_reporter: bool,
    /// collect id of the unit this root started (from the hook log; sched engine only)
    pub cid: Option<usize>,
}

#[derive(Clone, Debug)]
pub enum ScopeKind {
    Parent { span: usize, items: Vec<MItem> },
    Collector,
}

#[derive(Clone, Debug)]
pub struct MScope {
    pub kind: ScopeKind,
    pub vt: usize,
    pub open_t: T,
    pub close_t: Option<(T, T)>,
    pub sampled_any: bool,
    /// number of raw entries recorded in the scope (local spans + pseudo spans)
    pub count: usize,
    /// local spans entered after the scope was full (not recorded) and still open
    pub skipped_open: usize,
    pub open: Vec<usize>,
    /// collected into this set (collector scopes)
    pub set: Option<usize>,
    /// dropped without collecting
    pub discarded: bool,
    /// depth of the scope stack when opened (0 = outermost)
    pub depth: usize,
    /// adapter poll that opened it, if any
    pub by_adapter: Option<usize>,
}

#[derive(Clone, Debug)]
pub struct MLocal {
    pub name: String,
    pub scope: usize,
    pub parent: Option<usize>,
    pub vt: usize,
    pub enter_t: T,
    pub exit_t: Option<T>,
    pub br: Bracket,
    pub open_at_collect: bool,
    /// depth among open locals when entered
    pub depth: usize,
    pub via: &'static str,
}

#[derive(Clone, Copy, Debug, PartialEq, Eq, Hash)]
pub enum ARef {
    Span(usize),
    Local(usize),
    /// directly under the scope's token parent (the span set as local parent / the push target)
    ScopeRoot(usize),
}

#[derive(Clone, Copy, Debug, PartialEq, Eq, Hash, PartialOrd, Ord)]
pub enum Route {
    Creation,
    Handle,
    Local,
}

#[derive(Clone, Debug)]
pub enum AKind {
    Props(Vec<(String, String)>),
    Event { name: String, props: Vec<(String, String)> },
}

#[derive(Clone, Debug)]
pub struct MAtt {
    pub kind: AKind,
    pub target: ARef,
    pub route: Route,
    pub vt: usize,
    pub t: (T, T),
    /// carrying scope for the local route
    pub scope: Option<usize>,
    /// fastant bracket (events)
    pub b0: u64,
    pub b1: u64,
}

#[derive(Clone, Debug)]
pub struct MSet {
    pub scope: usize,
    /// bracket around collect()
    pub b0: u64,
    pub b1: u64,
    pub t: T,
    pub empty: bool,
    /// names of the span records the set converts to (`to_span_records`, taken at collect())
    pub snapshot: Vec<String>,
    /// names of the events on those records
    pub snapshot_events: Vec<String>,
}

#[derive(Clone, Debug)]
pub struct MPush {
    pub span: usize,
    pub set: usize,
    pub t: (T, T),
    pub vt: usize,
}

#[derive(Clone, Debug)]
pub struct MConv {
    pub set: usize,
    pub trace: u128,
    pub parent: u64,
    pub records: Vec<SpanRecord>,
    pub t: T,
    pub wall0: u64,
    pub wall1: u64,
}

#[derive(Clone, Debug)]
pub enum CtxSrc {
    Span(usize),
    Local { vt: usize },
}

#[derive(Clone, Debug)]
pub struct MCtx {
    pub src: CtxSrc,
    /// what the model says: None = must be None
    pub exp: Option<ExpCtx>,
    pub obs: Option<(u128, u64, bool)>,
    pub t: T,
    /// nesting info for classification
    pub open_locals: usize,
    pub multi_parent: bool,
}

#[derive(Clone, Debug)]
pub struct ExpCtx {
    pub trace: u128,
    /// the span the context must denote
    pub who: PRef,
    pub sampled: bool,
}

#[derive(Clone, Debug)]
pub struct Batch {
    pub t: T,
    pub records: Vec<SpanRecord>,
    /// cycle index this batch was reported by
    pub cycle: usize,
    pub wall_ns: u64,
}

#[derive(Clone, Debug)]
pub struct Cycle {
    pub t0: T,
    pub t1: Option<T>,
    /// steps of other vthreads executed while this cycle was in progress
    pub interleaved: u32,
}

#[derive(Clone, Debug)]
pub struct FlushReq {
    pub vt: usize,
    pub t0: T,
    pub t1: Option<T>,
    /// number of batches reported when flush returned
    pub batches_at_return: usize,
}

/// Observation of the local context (C10).
#[derive(Clone, Debug)]
pub struct Probe {
    pub vt: usize,
    /// model context version of the thread at the probe
    pub ctx_ver: u64,
    pub t: T,
    pub clp: Option<(u128, u64, bool)>,
    pub clp_panicked: bool,
    /// name of the probe span (Span::enter_with_local_parent)
    pub span_name: String,
    pub span_is_noop: bool,
    /// name of the probe event (LocalSpan::add_event)
    pub event_name: String,
    /// key of the probe property (LocalSpan::add_property)
    pub prop_key: String,
    pub depth: usize,
    pub kinds: u8,
}

#[derive(Clone, Debug)]
pub struct PanicRec {
    pub vt: usize,
    pub op: String,
    pub msg: String,
    pub t: T,
}

#[derive(Clone, Debug)]
pub struct ClosureCall {
    /// what the closure was passed to
    pub api: &'static str,
    /// model says the receiving object is recording
    pub recording: bool,
    pub invoked: bool,
    pub t: T,
}

#[derive(Clone, Debug)]
pub struct HookEv {
    pub t: T,
    pub vt: Option<usize>,
    pub kind: HookKind,
}

#[derive(Clone, Debug, PartialEq)]
pub enum HookKind {
    Command { kind: &'static str, ids: Vec<usize>, force: bool },
    BeforePush { free: usize, pending: usize, ring: usize },
    PushOutcome { ok: bool },
    BeforeDrain { ring: usize },
    RecvEmpty,
    /// `ring`: the receiver being drained (from the preceding BeforeDrain)
    Received { kind: &'static str, ids: Vec<usize>, ring: usize },
    /// the vthread registered its command queue (first command); `waited`: the registry was
    /// locked by a cycle in progress and the vthread had to wait for the drain to end
    Register { waited: bool },
}

#[derive(Clone, Debug, Default)]
pub struct Stats {
    pub active_collectors: usize,
    pub buffered_span_sets: usize,
    pub danglings: usize,
    pub registered_receivers: usize,
}

#[derive(Clone, Debug)]
pub struct StatSample {
    pub t: T,
    pub s: Stats,
    /// roots started and not yet (finished-or-cancelled and cycled), per the model
    pub live_units: usize,
    pub live_vts: usize,
    pub final_: bool,
}

#[derive(Clone, Debug)]
pub struct ElapsedObs {
    pub span: usize,
    pub obs_ns: Option<u64>,
    pub b0: u64,
    pub b1: u64,
}

#[derive(Clone, Debug)]
pub struct VtInfo {
    pub born_t: Option<T>,
    pub exit_t: Option<(T, T)>,
    pub ops_done: usize,
    /// model stack of open scopes (indices into scopes)
    pub stack: Vec<usize>,
    pub ctx_stack: Vec<u64>,
}

/// Adapter (future/stream/sink) model.
#[derive(Clone, Debug)]
pub struct MAdapter {
    pub kind: crate::prog::AdapterKind,
    pub span: Option<usize>,
    pub name: String,
    pub polls: Vec<MPoll>,
    pub done_t: Option<T>,
    pub dropped_t: Option<(T, T)>,
    pub create_vt: usize,
    /// spans that the inner object held and finished in its destructor
    pub held_finished: Vec<usize>,
    /// a second span bound by a second, outer `in_span` on the same object (its scope encloses
    /// the scope of `span` during every call; both finish together)
    pub outer: Option<usize>,
}

#[derive(Clone, Debug)]
pub struct MPoll {
    pub vt: usize,
    pub entry: crate::prog::Entry,
    pub t: (T, T),
    pub b0: u64,
    pub b1: u64,
    pub end: crate::prog::PollEnd,
    /// the span was (expected to be) finished by this call
    pub finishing: bool,
    /// current_local_parent() observed inside the call, first action
    pub inside_clp: Vec<Option<(u128, u64, bool)>>,
    pub inside_panicked: bool,
    /// the inner object panicked deliberately at the end of this call (scripted)
    pub inner_panic: bool,
    /// scope opened by this poll (model)
    pub scope: Option<usize>,
    /// scope of the outer span of a chained adapter, opened around `scope`
    pub outer_scope: Option<usize>,
    /// enter_on_poll local span (model)
    pub eop_local: Option<usize>,
    /// script was exhausted (inner polled after completion)
    pub past_end: bool,
    /// bracket of the inner (scripted) call
    pub i0: u64,
    pub i1: u64,
    /// sink close returned Err: whether that completes the close is not claimed
    pub close_err: bool,
}

#[derive(Debug, Default)]
pub struct Hist {
    pub cancelable: bool,
    pub spans: Vec<MSpan>,
    pub scopes: Vec<MScope>,
    pub locals: Vec<MLocal>,
    pub atts: Vec<MAtt>,
    pub sets: Vec<MSet>,
    pub pushes: Vec<MPush>,
    pub convs: Vec<MConv>,
    pub ctxs: Vec<MCtx>,
    pub batches: Vec<Batch>,
    pub cycles: Vec<Cycle>,
    pub flushes: Vec<FlushReq>,
    pub probes: Vec<Probe>,
    pub panics: Vec<PanicRec>,
    /// (vthread, t, what): collector work observed on a program vthread, inside a tracing call
    pub host_cycles: Vec<(usize, T, &'static str)>,
    pub closures: Vec<ClosureCall>,
    pub hooks: Vec<HookEv>,
    pub stats: Vec<StatSample>,
    pub elapsed: Vec<ElapsedObs>,
    pub vts: Vec<VtInfo>,
    pub adapters: Vec<MAdapter>,
    /// labels for the class histogram
    pub labels: BTreeMap<&'static str, u32>,
    /// executed-trace hash input
    pub trace_hash: u64,
    /// ops skipped because nothing to resolve against
    pub skipped_ops: u32,
    /// indices into `atts`: local attachments made after their scope was full (may be omitted)
    pub overflow_atts: HashSet<usize>,
    /// names of local spans / events and keys of properties issued where nothing records (no
    /// scope, a scope of an unsampled span, a full scope): they must not be delivered anywhere
    pub dark_names: Vec<String>,
    /// (filler root, number of events attached to its child, time) per backlog operation
    pub bulk_atts: Vec<(usize, usize, T)>,
    /// empty report() calls of idle cycles (not recorded as batches)
    pub idle_reports: u64,
    pub executed_ops: u32,
    /// shapes excluded by construction because of a known finding
    pub excluded: BTreeMap<&'static str, u32>,
    pub wall_start_ns: u64,
    pub wall_end_ns: u64,
    pub orphan_records: Vec<SpanRecord>,
    /// fills: number of commands pushed by fault injection
    pub fill_cmds: u64,
    pub limit_hit: bool,
    /// OS threads created during the case according to the process-wide ThreadId counter, and
    /// the number the harness itself spawned (vthreads)
    pub thread_ids_used: u64,
    pub threads_spawned_by_harness: u64,
}

impl Hist {
    pub fn label(&mut self, l: &'static str) {
        *self.labels.entry(l).or_insert(0) += 1;
    }
    pub fn mix(&mut self, x: u64) {
        // FNV-like mixing of the executed trace
        self.trace_hash = (self.trace_hash ^ x).wrapping_mul(0x100000001b3).rotate_left(17);
    }
}

//! fr-core as a library (shared by the worker binary and the libFuzzer targets).
pub mod adapters;
pub mod baton;
pub mod bgdeliver;
pub mod exec;
pub mod flushrace;
pub mod narrate;
pub mod oracle;
pub mod prog;
pub mod props;
pub mod strs;
pub mod prerace;
pub mod reporterpanic;
pub mod teardown;
pub mod world;
pub mod fuzzdec;

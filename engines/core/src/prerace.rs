//! C16, "created before a reporter is installed": the phase of a process in which no reporter has
//! been installed yet, with real parallelism. Plain OS threads create roots (and spans derived from
//! them) at full speed while other threads call `flush()` (which has no collector to run) or create
//! roots themselves. Every one of those spans is a no-op: no context, no elapsed(), no property
//! closure invoked; and when the worker finally installs a reporter, nothing of that phase is
//! delivered. The schedule is not owned by the harness; the verdicts are exact (a recording span
//! before a reporter exists is wrong whatever the schedule was).

use std::sync::atomic::{AtomicBool, AtomicU64, Ordering};
use std::sync::{Arc, Mutex};

use fastrace::collector::{Config, Reporter};
use fastrace::prelude::*;
use proptest::prelude::*;
use serde::{Deserialize, Serialize};

#[derive(Clone, Debug, Serialize, Deserialize, PartialEq)]
pub struct PreCase {
    pub root_threads: u8,
    pub flushers: u8,
    pub iters: u32,
    /// what is derived from each root: 0 nothing, 1 a child, 2 a local scope with a local span
    pub derive: u8,
}

pub fn strategy() -> BoxedStrategy<PreCase> {
    (1u8..5, 0u8..3, 5_000u32..60_000, 0u8..3).prop_map(|(root_threads, flushers, iters, derive)| PreCase { root_threads, flushers, iters, derive }).boxed()
}

static CASE: AtomicU64 = AtomicU64::new(0);
static SINK: Mutex<Vec<String>> = Mutex::new(Vec::new());

struct Sink;
impl Reporter for Sink {
    fn report(&mut self, spans: Vec<SpanRecord>) {
        SINK.lock().unwrap().extend(spans.into_iter().map(|s| s.name.to_string()));
    }
}

pub fn run(c: &PreCase) -> Vec<String> {
    let case = CASE.fetch_add(1, Ordering::SeqCst);
    let hits = Arc::new(AtomicU64::new(0));
    let live = Arc::new(AtomicU64::new(0));
    let stop = Arc::new(AtomicBool::new(false));
    let ready = Arc::new(AtomicU64::new(0));
    let go = Arc::new(AtomicBool::new(false));
    let mut hs = vec![];
    for t in 0..c.root_threads {
        let (hits, live, ready, go, c2) = (hits.clone(), live.clone(), ready.clone(), go.clone(), c.clone());
        hs.push(std::thread::spawn(move || {
            ready.fetch_add(1, Ordering::SeqCst);
            while !go.load(Ordering::Acquire) {
                std::hint::spin_loop();
            }
            for i in 0..c2.iters {
                let h2 = hits.clone();
                let root = Span::root("pre-reporter-root", SpanContext::new(TraceId(0x9E00 + case as u128 * 16 + t as u128), SpanId(i as u64))).with_properties(move || {
                    h2.fetch_add(1, Ordering::Relaxed);
                    [("k", "v")]
                });
                if SpanContext::from_span(&root).is_some() || root.elapsed().is_some() {
                    live.fetch_add(1, Ordering::Relaxed);
                }
                match c2.derive {
                    1 => {
                        let h3 = hits.clone();
                        let ch = Span::enter_with_parent("pre-reporter-child", &root).with_property(move || {
                            h3.fetch_add(1, Ordering::Relaxed);
                            ("k", "v")
                        });
                        if SpanContext::from_span(&ch).is_some() {
                            live.fetch_add(1, Ordering::Relaxed);
                        }
                    }
                    2 => {
                        let _g = root.set_local_parent();
                        let h3 = hits.clone();
                        let _l = LocalSpan::enter_with_local_parent("pre-reporter-local").with_property(move || {
                            h3.fetch_add(1, Ordering::Relaxed);
                            ("k", "v")
                        });
                        if SpanContext::current_local_parent().is_some() {
                            live.fetch_add(1, Ordering::Relaxed);
                        }
                    }
                    _ => {}
                }
            }
        }));
    }
    let mut fs = vec![];
    for _ in 0..c.flushers {
        let (stop, ready, go) = (stop.clone(), ready.clone(), go.clone());
        fs.push(std::thread::spawn(move || {
            ready.fetch_add(1, Ordering::SeqCst);
            while !go.load(Ordering::Acquire) {
                std::hint::spin_loop();
            }
            while !stop.load(Ordering::Acquire) {
                fastrace::flush();
            }
        }));
    }
    while ready.load(Ordering::SeqCst) < (c.root_threads + c.flushers) as u64 {
        std::hint::spin_loop();
    }
    go.store(true, Ordering::Release);
    for h in hs {
        let _ = h.join();
    }
    stop.store(true, Ordering::Release);
    for h in fs {
        let _ = h.join();
    }
    let mut out = vec![];
    let (l, h) = (live.load(Ordering::SeqCst), hits.load(Ordering::SeqCst));
    if l > 0 {
        out.push(format!("context: {} of {} spans created before any reporter was installed ({} threads creating roots, {} threads calling flush()) had a context / an elapsed time", l, c.iters as u64 * c.root_threads as u64, c.root_threads, c.flushers));
    }
    if h > 0 {
        out.push(format!("closure-invoked: {} property closures passed to spans created before any reporter was installed were invoked ({} threads creating roots, {} threads calling flush())", h, c.root_threads, c.flushers));
    }
    out
}

/// the end of the phase: the process installs its reporter; nothing created before is delivered
pub fn install_and_check() -> Vec<String> {
    fastrace::set_reporter(Sink, Config::default().report_interval(std::time::Duration::from_secs(3600)));
    std::thread::sleep(std::time::Duration::from_millis(50));
    fastrace::flush();
    fastrace::flush();
    let s = SINK.lock().unwrap();
    let n = s.iter().filter(|n| n.starts_with("pre-reporter-")).count();
    if n > 0 {
        vec![format!("delivered: {} records of spans created before the reporter was installed were delivered by the first cycles after set_reporter()", n)]
    } else {
        vec![]
    }
}

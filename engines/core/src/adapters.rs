//! Scripted futures, streams and sinks wrapped by the library's adapters (C13, C14).
//! The inner object runs a generated list of mini operations per call through the interpreter of
//! the polling vthread, so what happens "inside a poll" is part of the generated program.

use std::future::Future;
use std::pin::Pin;
use std::task::{Context, Poll};

use fastrace::prelude::*;
use futures_core::Stream;
use futures_sink::Sink;

use crate::exec::{noop_waker, Slot, VtCtx, ACTIVE};
use crate::prog::*;
use crate::world::*;

pub struct Scripted {
    pub adapter: usize,
    pub script: Vec<PollScript>,
    pub pos: usize,
    /// model: the adapter sets `span` as local parent around each call
    pub in_span: bool,
    /// model: enter_on_poll local span with this name around each poll
    pub eop: Option<String>,
    /// spans created during polls and held by this object (as a future holds a span across an
    /// await); finished by its destructor
    pub held: Vec<usize>,
    /// the waker of the latest call: inner objects (and the reactors, timers and channels behind
    /// them) keep a clone of it for as long as they live, also after they completed
    pub waker: Option<std::task::Waker>,
}

impl Drop for Scripted {
    fn drop(&mut self) {
        if self.held.is_empty() {
            return;
        }
        let p = ACTIVE.with(|a| a.get());
        if p.is_null() {
            return; // outside the interpreter: the spans stay with the world (reaper)
        }
        let cx: &mut VtCtx = unsafe { &mut *p };
        cx.case.w().h.label("inner_owned_span_dropped");
        let a = self.adapter;
        for i in std::mem::take(&mut self.held) {
            let live = matches!(cx.case.w().spans[i], Slot::Live(_));
            if live {
                cx.finish_idx(i);
                cx.case.w().h.adapters[a].held_finished.push(i);
            }
        }
    }
}

fn sel(i: u16, len: usize) -> usize {
    ((i as usize) * len) >> 16
}

impl Scripted {
    /// one call of the inner object; returns the scripted end
    fn step(&mut self) -> PollEnd {
        let p = ACTIVE.with(|a| a.get());
        assert!(!p.is_null(), "scripted object polled outside the interpreter");
        let cx: &mut VtCtx = unsafe { &mut *p };
        let a = self.adapter;
        let pi = {
            let w = cx.case.w();
            w.h.adapters[a].polls.len() - 1
        };
        let i0 = cx_now(cx);
        // model: what the adapter must have set up before calling us
        let floor = cx.floor;
        cx.floor = cx.guards.len();
        let mut scope = None;
        let mut outer_scope = None;
        if self.in_span {
            let outer = {
                let w = cx.case.w();
                let ad = &w.h.adapters[a];
                match ad.outer {
                    Some(o) if ad.done_t.is_none() && !w.h.spans[o].noop && w.h.vts[cx.id].stack.len() < 4096 && !cx.case.opts.disabled => Some(o),
                    _ => None,
                }
            };
            if let Some(o) = outer {
                let items = {
                    let w = cx.case.w();
                    w.h.spans[o].items.iter().map(|i| MItem { trace: i.trace, parent: PRef::Span(o), unit: i.unit, sampled: i.sampled }).collect()
                };
                outer_scope = Some(cx.model_open_scope(ScopeKind::Parent { span: o, items }, Some(a)));
            }
        }
        if self.in_span {
            let (span, present, noop, depth) = {
                let w = cx.case.w();
                let ad = &w.h.adapters[a];
                let sp = ad.span;
                let present = ad.done_t.is_none();
                let noop = sp.map(|s| w.h.spans[s].noop).unwrap_or(true);
                (sp, present, noop, w.h.vts[cx.id].stack.len())
            };
            if let (Some(s), true, false) = (span, present, noop) {
                if depth < 4096 && !cx.case.opts.disabled {
                    let items = {
                        let w = cx.case.w();
                        w.h.spans[s]
                            .items
                            .iter()
                            .map(|i| MItem {
                                trace: i.trace,
                                parent: PRef::Span(s),
                                unit: i.unit,
                                sampled: i.sampled,
                            })
                            .collect()
                    };
                    scope = Some(cx.model_open_scope(ScopeKind::Parent { span: s, items }, Some(a)));
                }
            }
        }
        let mut eop_local = None;
        if let Some(name) = &self.eop {
            eop_local = cx.model_enter_local(name.clone(), "eop");
        }
        {
            let mut w = cx.case.w();
            w.h.adapters[a].polls[pi].scope = scope;
            w.h.adapters[a].polls[pi].outer_scope = outer_scope;
            w.h.adapters[a].polls[pi].eop_local = eop_local;
        }
        // first observation inside the call
        {
            let r = cx.op_ctx_of_local();
            let mut w = cx.case.w();
            match r {
                Some(r) => w.h.adapters[a].polls[pi].inside_clp.push(r),
                None => w.h.adapters[a].polls[pi].inside_panicked = true,
            }
        }
        let end = if self.pos < self.script.len() {
            let ps = self.script[self.pos].clone();
            self.pos += 1;
            cx.run_mini(&ps.acts, Some((a, pi)));
            self.held.append(&mut cx.kept_in_poll);
            ps.end
        } else {
            cx.case.w().h.adapters[a].polls[pi].past_end = true;
            PollEnd::Ready
        };
        cx.pop_to_floor();
        cx.floor = floor;
        // model: the adapter's own guards are released after we return (closed by `drive`)
        let i1 = cx_now(cx);
        let panic_now = end == PollEnd::Panic;
        // for the model a call that panics is a call that did not complete anything
        let end = if panic_now { PollEnd::Pending } else { end };
        {
            let mut w = cx.case.w();
            let p = &mut w.h.adapters[a].polls[pi];
            p.end = end.clone();
            p.i0 = i0;
            p.i1 = i1;
            p.inner_panic = panic_now;
            if panic_now {
                w.h.label("inner_object_panicked_in_call");
            }
        }
        if panic_now {
            // no panic hook, no message: unwinds through the adapter's frame into `drive`
            std::panic::resume_unwind(Box::new(ScriptedPanic));
        }
        end
    }
}

/// payload of the deliberate panics of scripted inner objects
pub struct ScriptedPanic;

pub struct ScriptedFuture(pub Scripted);
impl Future for ScriptedFuture {
    type Output = u32;
    fn poll(mut self: Pin<&mut Self>, cx: &mut Context<'_>) -> Poll<u32> {
        self.0.waker = Some(cx.waker().clone());
        match self.0.step() {
            PollEnd::Pending | PollEnd::Panic => Poll::Pending,
            _ => Poll::Ready(7),
        }
    }
}

pub struct ScriptedStream(pub Scripted);
impl Stream for ScriptedStream {
    type Item = u32;
    fn poll_next(mut self: Pin<&mut Self>, cx: &mut Context<'_>) -> Poll<Option<u32>> {
        self.0.waker = Some(cx.waker().clone());
        match self.0.step() {
            PollEnd::Pending | PollEnd::Panic => Poll::Pending,
            PollEnd::Alt => Poll::Ready(Some(1)),
            PollEnd::Ready => Poll::Ready(None),
        }
    }
    /// scripts of even length advertise the exact number of items left (as `iter`, channels with
    /// a known length or `take(n)` do); the others keep the default hint
    fn size_hint(&self) -> (usize, Option<usize>) {
        if self.0.script.len() % 2 == 1 {
            return (0, None);
        }
        let mut n = 0;
        for ps in self.0.script.iter().skip(self.0.pos) {
            match ps.end {
                PollEnd::Alt => n += 1,
                PollEnd::Ready => break,
                PollEnd::Pending | PollEnd::Panic => {}
            }
        }
        (n, Some(n))
    }
}

pub struct ScriptedSink(pub Scripted);
impl ScriptedSink {
    fn res(&mut self) -> Poll<Result<(), u8>> {
        match self.0.step() {
            PollEnd::Pending | PollEnd::Panic => Poll::Pending,
            PollEnd::Alt => Poll::Ready(Err(1)),
            PollEnd::Ready => Poll::Ready(Ok(())),
        }
    }
}
impl Sink<u32> for ScriptedSink {
    type Error = u8;
    fn poll_ready(mut self: Pin<&mut Self>, cx: &mut Context<'_>) -> Poll<Result<(), u8>> {
        self.0.waker = Some(cx.waker().clone());
        self.res()
    }
    fn start_send(mut self: Pin<&mut Self>, _item: u32) -> Result<(), u8> {
        match self.res() {
            Poll::Ready(r) => r,
            Poll::Pending => Ok(()),
        }
    }
    fn poll_flush(mut self: Pin<&mut Self>, cx: &mut Context<'_>) -> Poll<Result<(), u8>> {
        self.0.waker = Some(cx.waker().clone());
        self.res()
    }
    fn poll_close(mut self: Pin<&mut Self>, cx: &mut Context<'_>) -> Poll<Result<(), u8>> {
        self.0.waker = Some(cx.waker().clone());
        self.res()
    }
}

/// both halves on one scripted object: every call of either half takes the next script step
pub struct ScriptedDuplex(pub Scripted);
impl Stream for ScriptedDuplex {
    type Item = u32;
    fn poll_next(mut self: Pin<&mut Self>, cx: &mut Context<'_>) -> Poll<Option<u32>> {
        self.0.waker = Some(cx.waker().clone());
        match self.0.step() {
            PollEnd::Pending | PollEnd::Panic => Poll::Pending,
            PollEnd::Alt => Poll::Ready(Some(1)),
            PollEnd::Ready => Poll::Ready(None),
        }
    }
}
impl ScriptedDuplex {
    fn res(&mut self) -> Poll<Result<(), u8>> {
        match self.0.step() {
            PollEnd::Pending | PollEnd::Panic => Poll::Pending,
            PollEnd::Alt => Poll::Ready(Err(1)),
            PollEnd::Ready => Poll::Ready(Ok(())),
        }
    }
}
impl Sink<u32> for ScriptedDuplex {
    type Error = u8;
    fn poll_ready(mut self: Pin<&mut Self>, cx: &mut Context<'_>) -> Poll<Result<(), u8>> {
        self.0.waker = Some(cx.waker().clone());
        self.res()
    }
    fn start_send(mut self: Pin<&mut Self>, _item: u32) -> Result<(), u8> {
        match self.res() {
            Poll::Ready(r) => r,
            Poll::Pending => Ok(()),
        }
    }
    fn poll_flush(mut self: Pin<&mut Self>, cx: &mut Context<'_>) -> Poll<Result<(), u8>> {
        self.0.waker = Some(cx.waker().clone());
        self.res()
    }
    fn poll_close(mut self: Pin<&mut Self>, cx: &mut Context<'_>) -> Poll<Result<(), u8>> {
        self.0.waker = Some(cx.waker().clone());
        self.res()
    }
}

pub enum AdapterObj {
    Fut(Pin<Box<dyn Future<Output = u32> + Send>>),
    Stream(Pin<Box<fastrace_futures::InSpan<ScriptedStream>>>),
    Sink(Pin<Box<fastrace_futures::InSpan<ScriptedSink>>>),
    Duplex(Pin<Box<fastrace_futures::InSpan<ScriptedDuplex>>>),
    /// chained adapters: whatever type `.in_span(a).in_span(b)` yields (type-erased, so that the
    /// harness compiles whichever method the second call resolves to)
    Stream2(Pin<Box<dyn Stream<Item = u32> + Send>>),
    Sink2(Pin<Box<dyn Sink<u32, Error = u8> + Send>>),
}

impl VtCtx {
    pub fn model_open_scope(&mut self, kind: ScopeKind, by: Option<usize>) -> usize {
        let mut w = self.case.w();
        let t = w.tick();
        let vt = self.id;
        let sampled_any = match &kind {
            ScopeKind::Collector => true,
            ScopeKind::Parent { items, .. } => items.iter().any(|i| i.sampled),
        };
        let depth = w.h.vts[vt].stack.len();
        w.h.scopes.push(MScope {
            kind,
            vt,
            open_t: t,
            close_t: None,
            skipped_open: 0,
            sampled_any,
            count: 0,
            open: vec![],
            set: None,
            discarded: false,
            depth,
            by_adapter: by,
        });
        let sc = w.h.scopes.len() - 1;
        w.h.vts[vt].stack.push(sc);
        w.ctx_ver += 1;
        let v = w.ctx_ver;
        w.h.vts[vt].ctx_stack.push(v);
        sc
    }

    pub fn model_close_scope(&mut self, sc: usize, t0: T) {
        let mut w = self.case.w();
        let t1 = w.tick();
        let vt = self.id;
        w.h.scopes[sc].close_t = Some((t0, t1));
        if w.h.vts[vt].stack.last() == Some(&sc) {
            w.h.vts[vt].stack.pop();
            w.h.vts[vt].ctx_stack.pop();
        }
    }

    /// model-only: a local span the library itself opens (enter_on_poll)
    pub fn model_enter_local(&mut self, name: String, via: &'static str) -> Option<usize> {
        let mut w = self.case.w();
        let t = w.tick();
        let vt = self.id;
        if self.case.opts.disabled {
            return None;
        }
        let sc = *w.h.vts[vt].stack.last()?;
        if !w.h.scopes[sc].sampled_any || w.h.scopes[sc].count >= 10240 {
            return None;
        }
        let parent = w.h.scopes[sc].open.last().copied();
        let depth = w.h.scopes[sc].open.len();
        w.h.locals.push(MLocal {
            name,
            scope: sc,
            parent,
            vt,
            enter_t: t,
            exit_t: None,
            br: Bracket::default(),
            open_at_collect: false,
            depth,
            via,
        });
        let li = w.h.locals.len() - 1;
        w.h.scopes[sc].open.push(li);
        w.h.scopes[sc].count += 1;
        w.ctx_ver += 1;
        let v = w.ctx_ver;
        w.h.vts[vt].ctx_stack.push(v);
        Some(li)
    }

    pub fn model_exit_local(&mut self, li: usize, b0: u64, b1: u64) {
        let mut w = self.case.w();
        let t = w.tick();
        let vt = self.id;
        w.h.locals[li].exit_t = Some(t);
        w.h.locals[li].br.c0 = b0;
        w.h.locals[li].br.f1 = b1;
        let sc = w.h.locals[li].scope;
        if w.h.scopes[sc].open.last() == Some(&li) {
            w.h.scopes[sc].open.pop();
            w.h.vts[vt].ctx_stack.pop();
        }
    }
}

pub fn wrap(cx: &mut VtCtx, kind: AdapterKind, span_sel: u16, s: StrSeed, script: &[PollScript]) {
    // the traced function's span has a fixed name: one per case, further ones are plain in_span
    let kind = if kind == AdapterKind::TracedBoxed && (cx.case.opts.disabled || cx.case.w().h.adapters.iter().any(|a| a.kind == AdapterKind::TracedBoxed)) {
        AdapterKind::InSpan
    } else {
        kind
    };
    if kind == AdapterKind::TracedBoxed {
        return wrap_traced_boxed(cx, script);
    }
    let needs_span = !matches!(kind, AdapterKind::EnterOnPoll);
    let (a, name) = {
        let mut w = cx.case.w();
        w.tick();
        let a = w.adapters.len();
        (a, w.name(s))
    };
    let mut span_idx = None;
    let mut span = None;
    if needs_span {
        let idx = {
            let mut w = cx.case.w();
            let live: Vec<usize> = (0..w.spans.len())
                .filter(|i| matches!(w.spans[*i], Slot::Live(_)))
                .collect();
            if live.is_empty() {
                w.h.skipped_ops += 1;
                return;
            }
            live[sel(span_sel, live.len())]
        };
        let sp = {
            let mut w = cx.case.w();
            match std::mem::replace(&mut w.spans[idx], Slot::Gone) {
                Slot::Live(s) => s,
                other => {
                    w.spans[idx] = other;
                    return;
                }
            }
        };
        span_idx = Some(idx);
        span = Some(sp);
    }
    // chained adapters need a second live span; without one they are plain adapters
    let mut outer_idx = None;
    let mut outer_span = None;
    let kind = if matches!(kind, AdapterKind::StreamTwice | AdapterKind::SinkTwice) {
        let mut w = cx.case.w();
        let live: Vec<usize> = (0..w.spans.len()).filter(|i| matches!(w.spans[*i], Slot::Live(_))).collect();
        if live.is_empty() {
            if kind == AdapterKind::StreamTwice { AdapterKind::Stream } else { AdapterKind::Sink }
        } else {
            let idx = live[sel(span_sel.rotate_left(7), live.len())];
            if let Slot::Live(sp) = std::mem::replace(&mut w.spans[idx], Slot::Gone) {
                outer_idx = Some(idx);
                outer_span = Some(sp);
            }
            kind
        }
    } else {
        kind
    };
    let mk = |in_span: bool, eop: Option<String>| Scripted {
        adapter: a,
        script: script.to_vec(),
        pos: 0,
        in_span,
        eop,
        held: vec![],
        waker: None,
    };
    let obj = match kind {
        AdapterKind::InSpan => AdapterObj::Fut(Box::pin(ScriptedFuture(mk(true, None)).in_span(span.take().unwrap()))),
        AdapterKind::EnterOnPoll => {
            AdapterObj::Fut(Box::pin(ScriptedFuture(mk(false, Some(name.clone()))).enter_on_poll(name.clone())))
        }
        AdapterKind::InSpanEnterOnPoll => AdapterObj::Fut(Box::pin(
            ScriptedFuture(mk(true, Some(name.clone())))
                .enter_on_poll(name.clone())
                .in_span(span.take().unwrap()),
        )),
        AdapterKind::Stream => {
            use fastrace_futures::StreamExt as _;
            AdapterObj::Stream(Box::pin(ScriptedStream(mk(true, None)).in_span(span.take().unwrap())))
        }
        AdapterKind::Sink => {
            use fastrace_futures::SinkExt as _;
            AdapterObj::Sink(Box::pin(ScriptedSink(mk(true, None)).in_span(span.take().unwrap())))
        }
        AdapterKind::DuplexViaStream => AdapterObj::Duplex(Box::pin(<ScriptedDuplex as fastrace_futures::StreamExt>::in_span(
            ScriptedDuplex(mk(true, None)),
            span.take().unwrap(),
        ))),
        AdapterKind::DuplexViaSink => AdapterObj::Duplex(Box::pin(<ScriptedDuplex as fastrace_futures::SinkExt<u32>>::in_span(
            ScriptedDuplex(mk(true, None)),
            span.take().unwrap(),
        ))),
        AdapterKind::StreamTwice => {
            use fastrace_futures::StreamExt as _;
            AdapterObj::Stream2(Box::pin(ScriptedStream(mk(true, None)).in_span(span.take().unwrap()).in_span(outer_span.take().unwrap())))
        }
        AdapterKind::SinkTwice => {
            use fastrace_futures::SinkExt as _;
            AdapterObj::Sink2(Box::pin(ScriptedSink(mk(true, None)).in_span(span.take().unwrap()).in_span(outer_span.take().unwrap())))
        }
        AdapterKind::TracedBoxed => unreachable!(),
    };
    let mut w = cx.case.w();
    w.adapters.push(Slot::Live(obj));
    let vt = cx.id;
    w.h.adapters.push(MAdapter {
        kind,
        span: span_idx,
        name,
        polls: vec![],
        done_t: None,
        dropped_t: None,
        create_vt: vt,
        held_finished: vec![],
        outer: None,
    });
    if let Some(i) = span_idx {
        w.h.spans[i].in_adapter = Some(a);
    }
    if let Some(o) = outer_idx {
        w.h.adapters[a].outer = Some(o);
        w.h.spans[o].in_adapter = Some(a);
        w.h.label("chained_adapters");
    }
    w.h.label("wrap");
}

fn wrap_traced_boxed(cx: &mut VtCtx, script: &[PollScript]) {
    let (a, t0) = {
        let mut w = cx.case.w();
        let t0 = w.tick();
        (w.adapters.len(), t0)
    };
    let name = "traced-boxed-fn".to_string();
    let inner = ScriptedFuture(Scripted { adapter: a, script: script.to_vec(), pos: 0, in_span: true, eop: None, held: vec![], waker: None });
    let c0 = cx_now(cx);
    let d0 = crate::exec::BOXED_DEBUG_CALLS.load(std::sync::atomic::Ordering::SeqCst);
    let Some(fut) = cx.guarded("#[trace] fn returning a boxed future", move |_| crate::exec::traced_boxed(inner, crate::exec::BoxedArg(7))) else { return };
    let d1 = crate::exec::BOXED_DEBUG_CALLS.load(std::sync::atomic::Ordering::SeqCst);
    let c1 = cx_now(cx);
    // the model's span: created by the call under the caller's local parent (like
    // Span::enter_with_local_parent); the real handle lives inside the returned future
    let mut ms = cx.blank_span(name.clone(), "trace-boxed");
    let mut w = cx.case.w();
    match VtCtx::local_token(&w, cx.id) {
        Some(items) => ms.items = items,
        None => ms.noop = true,
    }
    let t1 = w.tick();
    ms.create_t = (t0, t1);
    ms.br.c0 = c0;
    ms.br.c1 = c1;
    ms.in_adapter = Some(a);
    let recording = !ms.noop && !ms.items.is_empty();
    w.h.spans.push(ms);
    w.spans.push(Slot::Gone);
    let idx = w.h.spans.len() - 1;
    w.adapters.push(Slot::Live(AdapterObj::Fut(fut)));
    let vt = cx.id;
    // the attribute's property belongs to the call: evaluated there if the call records, never later
    w.h.closures.push(ClosureCall { api: "#[trace(properties)] fn returning a boxed future: call", recording, invoked: d1 != d0, t: t1 });
    if recording {
        w.h.atts.push(MAtt { kind: AKind::Props(vec![("tbx".to_string(), "BA(7)".to_string())]), target: ARef::Span(idx), route: Route::Creation, vt, t: (t0, t1), scope: None, b0: 0, b1: 0 });
    } else {
        w.h.dark_names.push("tbx".to_string());
    }
    w.h.adapters.push(MAdapter {
        kind: AdapterKind::TracedBoxed,
        span: Some(idx),
        name,
        polls: vec![],
        done_t: None,
        dropped_t: None,
        create_vt: vt,
        held_finished: vec![],
        outer: None,
    });
    w.h.label("wrap");
    w.h.label("traced_fn_returning_boxed_future");
}

pub fn drive(cx: &mut VtCtx, a_sel: u16, entry: Entry, nested: bool) {
    let a = {
        let mut w = cx.case.w();
        let live: Vec<usize> = (0..w.adapters.len())
            .filter(|i| matches!(w.adapters[*i], Slot::Live(_)))
            .collect();
        if live.is_empty() {
            w.h.skipped_ops += 1;
            return;
        }
        live[sel(a_sel, live.len())]
    };
    let (kind, done) = {
        let w = cx.case.w();
        (w.h.adapters[a].kind, w.h.adapters[a].done_t.is_some())
    };
    // futures must not be polled after completion
    let is_fut = matches!(kind, AdapterKind::InSpan | AdapterKind::EnterOnPoll | AdapterKind::InSpanEnterOnPoll | AdapterKind::TracedBoxed);
    let poisoned = cx.case.w().h.adapters[a].polls.iter().any(|p| p.inner_panic);
    if (is_fut && done) || poisoned {
        // an object that panicked in a call is not called again (it is dropped later)
        cx.case.w().h.skipped_ops += 1;
        return;
    }
    let entry = match kind {
        AdapterKind::Stream | AdapterKind::StreamTwice => Entry::PollNext,
        AdapterKind::Sink | AdapterKind::SinkTwice => match entry {
            Entry::Poll | Entry::PollNext => Entry::PollReady,
            e => e,
        },
        AdapterKind::DuplexViaStream | AdapterKind::DuplexViaSink => match entry {
            Entry::Poll => Entry::PollNext,
            e => e,
        },
        _ => Entry::Poll,
    };
    let Some(mut obj) = ({
        let mut w = cx.case.w();
        match std::mem::replace(&mut w.adapters[a], Slot::Busy) {
            Slot::Live(o) => Some(o),
            other => {
                w.adapters[a] = other;
                None
            }
        }
    }) else {
        return;
    };
    if cx.case.opts.auto_probe {
        cx.op_probe();
    }
    let t0 = {
        let mut w = cx.case.w();
        let t0 = w.tick();
        let vt = cx.id;
        w.h.adapters[a].polls.push(MPoll {
            vt,
            entry,
            t: (t0, t0),
            b0: 0,
            b1: 0,
            end: PollEnd::Pending,
            finishing: false,
            inside_clp: vec![],
            inside_panicked: false,
            inner_panic: false,
            scope: None,
            outer_scope: None,
            eop_local: None,
            past_end: false,
            i0: 0,
            i1: 0,
            close_err: false,
        });
        if nested {
            w.h.label("nested_poll");
        }
        t0
    };
    let pi = cx.case.w().h.adapters[a].polls.len() - 1;
    let waker = noop_waker();
    let prev = ACTIVE.with(|p| p.replace(cx as *mut VtCtx));
    let b0 = cx_now(cx);
    let boxed_dbg0 = crate::exec::BOXED_DEBUG_CALLS.load(std::sync::atomic::Ordering::SeqCst);
    let res = std::panic::catch_unwind(std::panic::AssertUnwindSafe(|| {
        let mut c = Context::from_waker(&waker);
        match (&mut obj, entry) {
            (AdapterObj::Fut(f), _) => f.as_mut().poll(&mut c).is_ready(),
            (AdapterObj::Stream(s), _) => matches!(s.as_mut().poll_next(&mut c), Poll::Ready(None)),
            (AdapterObj::Sink(s), Entry::PollReady) => {
                let _ = s.as_mut().poll_ready(&mut c);
                false
            }
            (AdapterObj::Sink(s), Entry::StartSend) => {
                let _ = s.as_mut().start_send(3);
                false
            }
            (AdapterObj::Sink(s), Entry::PollFlush) => {
                let _ = s.as_mut().poll_flush(&mut c);
                false
            }
            (AdapterObj::Sink(s), _) => s.as_mut().poll_close(&mut c).is_ready(),
            (AdapterObj::Stream2(s), _) => matches!(s.as_mut().poll_next(&mut c), Poll::Ready(None)),
            (AdapterObj::Sink2(s), Entry::PollReady) => {
                let _ = s.as_mut().poll_ready(&mut c);
                false
            }
            (AdapterObj::Sink2(s), Entry::StartSend) => {
                let _ = s.as_mut().start_send(3);
                false
            }
            (AdapterObj::Sink2(s), Entry::PollFlush) => {
                let _ = s.as_mut().poll_flush(&mut c);
                false
            }
            (AdapterObj::Sink2(s), _) => s.as_mut().poll_close(&mut c).is_ready(),
            (AdapterObj::Duplex(s), Entry::PollNext) => matches!(s.as_mut().poll_next(&mut c), Poll::Ready(None)),
            (AdapterObj::Duplex(s), Entry::PollReady) => {
                let _ = s.as_mut().poll_ready(&mut c);
                false
            }
            (AdapterObj::Duplex(s), Entry::StartSend) => {
                let _ = s.as_mut().start_send(3);
                false
            }
            (AdapterObj::Duplex(s), Entry::PollFlush) => {
                let _ = s.as_mut().poll_flush(&mut c);
                false
            }
            (AdapterObj::Duplex(s), _) => s.as_mut().poll_close(&mut c).is_ready(),
        }
    }));
    let b1 = cx_now(cx);
    ACTIVE.with(|p| p.set(prev));
    let boxed_dbg1 = crate::exec::BOXED_DEBUG_CALLS.load(std::sync::atomic::Ordering::SeqCst);
    let mut w = cx.case.w();
    let t1 = w.tick();
    if kind == AdapterKind::TracedBoxed {
        w.h.closures.push(ClosureCall { api: "#[trace(properties)] fn returning a boxed future: poll", recording: false, invoked: boxed_dbg1 != boxed_dbg0, t: t1 });
    }
    w.adapters[a] = Slot::Live(obj);
    let vt = cx.id;
    let finished_now = match res {
        Ok(f) => f,
        Err(p) if p.is::<ScriptedPanic>() => false,
        Err(p) => {
            let msg = if let Some(s) = p.downcast_ref::<&str>() {
                s.to_string()
            } else if let Some(s) = p.downcast_ref::<String>() {
                s.clone()
            } else {
                "?".into()
            };
            w.h.panics.push(PanicRec {
                vt,
                op: format!("adapter {:?}", entry),
                msg,
                t: t1,
            });
            false
        }
    };
    let (scope, eop_local, outer_scope) = {
        let p = &mut w.h.adapters[a].polls[pi];
        p.t = (t0, t1);
        p.b0 = b0;
        p.b1 = b1;
        (p.scope, p.eop_local, p.outer_scope)
    };
    drop(w);
    // model: guards of the adapter are released when the call returns
    if let Some(li) = eop_local {
        cx.model_exit_local(li, b0, b1);
    }
    if let Some(sc) = scope {
        cx.model_close_scope(sc, t0);
    }
    if let Some(sc) = outer_scope {
        cx.model_close_scope(sc, t0);
    }
    let mut w = cx.case.w();
    if finished_now && w.h.adapters[a].done_t.is_none() {
        w.h.adapters[a].done_t = Some(t1);
        w.h.adapters[a].polls[pi].finishing = true;
        for si in [w.h.adapters[a].span, w.h.adapters[a].outer].into_iter().flatten() {
            if w.h.spans[si].finish_t.is_none() {
                w.h.spans[si].finish_t = Some((t0, t1));
                w.h.spans[si].finish_vt = Some(vt);
                w.h.spans[si].br.f0 = b0;
                w.h.spans[si].br.f1 = b1;
            }
        }
    }
    let mig = {
        let ps = &w.h.adapters[a].polls;
        ps.len() >= 2 && ps[ps.len() - 2].vt != vt
    };
    if mig {
        w.h.label("poll_migration");
    }
    if entry == Entry::PollClose && w.h.adapters[a].polls[pi].end == PollEnd::Alt && !done {
        w.h.adapters[a].polls[pi].close_err = true;
    }
    drop(w);
    if cx.case.opts.auto_probe {
        cx.op_probe();
    }
}

fn cx_now(cx: &VtCtx) -> u64 {
    let w = cx.case.w();
    fastant::Instant::now().duration_since(w.case_start).as_nanos() as u64
}

pub fn drop_adapter(cx: &mut VtCtx, a_sel: u16) {
    let a = {
        let mut w = cx.case.w();
        let live: Vec<usize> = (0..w.adapters.len())
            .filter(|i| matches!(w.adapters[*i], Slot::Live(_)))
            .collect();
        if live.is_empty() {
            w.h.skipped_ops += 1;
            return;
        }
        live[sel(a_sel, live.len())]
    };
    drop_adapter_idx(cx, a);
}

pub fn drop_adapter_idx(cx: &mut VtCtx, a: usize) {
    let obj = {
        let mut w = cx.case.w();
        match std::mem::replace(&mut w.adapters[a], Slot::Gone) {
            Slot::Live(o) => o,
            other => {
                w.adapters[a] = other;
                return;
            }
        }
    };
    let t0 = cx.case.w().tick();
    let b0 = cx_now(cx);
    // the inner object's destructor may finish spans it holds: it runs inside the interpreter
    let prev = ACTIVE.with(|p| p.replace(cx as *mut VtCtx));
    let r = std::panic::catch_unwind(std::panic::AssertUnwindSafe(|| drop(obj)));
    ACTIVE.with(|p| p.set(prev));
    let b1 = cx_now(cx);
    let mut w = cx.case.w();
    let t1 = w.tick();
    let vt = cx.id;
    if r.is_err() {
        w.h.panics.push(PanicRec {
            vt,
            op: "adapter drop".into(),
            msg: "panic".into(),
            t: t1,
        });
    }
    w.h.adapters[a].dropped_t = Some((t0, t1));
    if w.h.adapters[a].done_t.is_none() {
        for si in [w.h.adapters[a].span, w.h.adapters[a].outer].into_iter().flatten() {
            if w.h.spans[si].finish_t.is_none() {
                w.h.spans[si].finish_t = Some((t0, t1));
                w.h.spans[si].finish_vt = Some(vt);
                w.h.spans[si].br.f0 = b0;
                w.h.spans[si].br.f1 = b1;
                w.h.label("adapter_dropped_before_completion");
            }
        }
    }
}

//! Oracles: compare what the library delivered / returned with what the reference model says
//! the listed property promises. Every oracle returns violations with a stable *signature*
//! (used to key known findings) and a human-readable message.

use std::collections::{BTreeMap, HashMap, HashSet};

use fastrace::prelude::SpanRecord;

use crate::world::*;

#[derive(Clone, Debug)]
pub struct Viol {
    pub prop: &'static str,
    pub sig: String,
    pub msg: String,
}

fn v(prop: &'static str, sig: impl Into<String>, msg: impl Into<String>) -> Viol {
    Viol {
        prop,
        sig: sig.into(),
        msg: msg.into(),
    }
}

#[derive(Clone, Copy, Debug, PartialEq, Eq, Hash)]
pub enum Src {
    Span(usize),
    Local(usize),
    Pushed(usize, usize),
}

#[derive(Clone, Debug)]
pub struct Exp {
    pub name: String,
    pub trace: u128,
    pub parent: PRef,
    pub unit: usize,
    pub src: Src,
    /// (begin, end) of the operation that finished the object
    pub fin: (T, T),
    /// number of token items of the carrier that share this unit (>=2: known-finding shape)
    pub dup_unit: bool,
}

pub struct Index<'a> {
    pub h: &'a Hist,
    /// name -> (batch idx, record)
    pub by_name: HashMap<&'a str, Vec<(usize, &'a SpanRecord)>>,
    pub exps: Vec<Exp>,
    pub exp_by_name: HashMap<String, Vec<usize>>,
}

fn dup_units(items: &[MItem]) -> HashSet<usize> {
    let mut seen = HashSet::new();
    let mut dup = HashSet::new();
    for i in items.iter().filter(|i| i.sampled) {
        if !seen.insert(i.unit) {
            dup.insert(i.unit);
        }
    }
    dup
}

impl<'a> Index<'a> {
    pub fn new(h: &'a Hist) -> Self {
        let mut by_name: HashMap<&str, Vec<(usize, &SpanRecord)>> = HashMap::new();
        for (bi, b) in h.batches.iter().enumerate() {
            for r in &b.records {
                by_name.entry(r.name.as_ref()).or_default().push((bi, r));
            }
        }
        let mut exps = Vec::new();
        for (si, s) in h.spans.iter().enumerate() {
            if s.noop {
                continue;
            }
            let Some(fin) = s.finish_t else { continue };
            let dups = dup_units(&s.items);
            for it in s.items.iter().filter(|i| i.sampled) {
                exps.push(Exp {
                    name: s.name.clone(),
                    trace: it.trace,
                    parent: it.parent,
                    unit: it.unit,
                    src: Src::Span(si),
                    fin,
                    dup_unit: dups.contains(&it.unit),
                });
            }
        }
        for (li, l) in h.locals.iter().enumerate() {
            let sc = &h.scopes[l.scope];
            if let ScopeKind::Parent { items, .. } = &sc.kind {
                let Some(fin) = sc.close_t else { continue };
                let dups = dup_units(items);
                for it in items.iter().filter(|i| i.sampled) {
                    exps.push(Exp {
                        name: l.name.clone(),
                        trace: it.trace,
                        parent: match l.parent {
                            Some(p) => PRef::Local(p),
                            None => it.parent,
                        },
                        unit: it.unit,
                        src: Src::Local(li),
                        fin,
                        dup_unit: dups.contains(&it.unit),
                    });
                }
            }
        }
        for (pi, p) in h.pushes.iter().enumerate() {
            let sp = &h.spans[p.span];
            let set = &h.sets[p.set];
            let dups = dup_units(&sp.items);
            for it in sp.items.iter().filter(|i| i.sampled) {
                for (li, l) in h.locals.iter().enumerate() {
                    if l.scope != set.scope {
                        continue;
                    }
                    exps.push(Exp {
                        name: l.name.clone(),
                        trace: it.trace,
                        parent: match l.parent {
                            Some(pp) => PRef::Local(pp),
                            None => PRef::Span(p.span),
                        },
                        unit: it.unit,
                        src: Src::Pushed(pi, li),
                        fin: p.t,
                        dup_unit: dups.contains(&it.unit),
                    });
                }
            }
        }
        let mut exp_by_name: HashMap<String, Vec<usize>> = HashMap::new();
        for (i, e) in exps.iter().enumerate() {
            exp_by_name.entry(e.name.clone()).or_default().push(i);
        }
        Index {
            h,
            by_name,
            exps,
            exp_by_name,
        }
    }

    /// span id the model object is known by: from a delivered record of that name, else from the
    /// API (spans) or from an observed current_local_parent (locals)
    pub fn id_of(&self, p: PRef) -> Option<u64> {
        match p {
            PRef::Remote(x) => Some(x),
            PRef::Span(s) => {
                let sp = &self.h.spans[s];
                if let Some(rs) = self.by_name.get(sp.name.as_str()) {
                    if !sp.name.is_empty() {
                        return Some(rs[0].1.span_id.0);
                    }
                }
                sp.api_id
            }
            PRef::Local(l) => {
                let lo = &self.h.locals[l];
                if lo.via == "eop" {
                    // enter_on_poll spans share their name across polls
                    return None;
                }
                if let Some(rs) = self.by_name.get(lo.name.as_str()) {
                    let ids: HashSet<u64> = rs.iter().map(|r| r.1.span_id.0).collect();
                    if ids.len() == 1 {
                        return ids.into_iter().next();
                    }
                    return None;
                }
                for c in &self.h.ctxs {
                    if let (Some(e), Some(o)) = (&c.exp, &c.obs) {
                        if e.who == PRef::Local(l) {
                            return Some(o.1);
                        }
                    }
                }
                None
            }
        }
    }

    /// first complete cycle that starts after logical time `t`: (cycle idx, t1)
    pub fn first_cycle_after(&self, t: T) -> Option<(usize, T)> {
        self.h
            .cycles
            .iter()
            .enumerate()
            .find(|(_, c)| c.t0 > t && c.t1.is_some())
            .map(|(i, c)| (i, c.t1.unwrap()))
    }

    pub fn root_cancelled(&self, unit: usize) -> bool {
        self.h.cancelable && !self.h.spans[unit].cancel_t.is_empty() && self.h.spans[unit].is_root
    }
}

/// case uses features whose delivered records cannot be matched by unique name
fn names_ambiguous(h: &Hist) -> bool {
    // instrumented functions record spans with fixed names; closures that use the tracing API
    // themselves are modelled operation by operation (see run_re) and need no exemption
    h.labels.contains_key("trace_fn")
}

// ---------------------------------------------------------------------------------------------
// C02: tree shape
// ---------------------------------------------------------------------------------------------
pub fn c02(ix: &Index, complete_multi: bool) -> Vec<Viol> {
    let mut out = Vec::new();
    let h = ix.h;
    if names_ambiguous(h) {
        return out;
    }
    let mut id_owner: HashMap<u64, &str> = HashMap::new();
    for (name, recs) in &ix.by_name {
        if name.starts_with("fill-") || *name == "f" {
            continue;
        }
        let Some(eis) = ix.exp_by_name.get(*name) else {
            out.push(v("C02", "unknown-record", format!("record {:?} corresponds to no span of the program", name)));
            continue;
        };
        // eop locals share a name: checked by C13
        let src0 = ix.exps[eis[0]].src;
        let eop = matches!(src0, Src::Local(l) if h.locals[l].via == "eop");
        // one span id for all copies, non-zero
        let ids: HashSet<u64> = recs.iter().map(|r| r.1.span_id.0).collect();
        if !eop {
            if ids.len() != 1 {
                out.push(v("C02", "copies-differ-in-id", format!("record {:?} delivered with several span ids {:?}", name, ids)));
            }
        }
        for id in &ids {
            if *id == 0 {
                out.push(v("C02", "zero-span-id", format!("record {:?} has span id 0", name)));
            }
            if let Some(other) = id_owner.insert(*id, name) {
                if other != *name && !eop {
                    out.push(v(
                        "C02",
                        "duplicate-span-id",
                        format!("distinct spans {:?} and {:?} share span id {:#x}", other, name, id),
                    ));
                }
            }
        }
        // multiset of (trace, parent) delivered ⊆ expected
        let mut expected: Vec<(u128, Option<u64>, bool)> = eis
            .iter()
            .map(|i| {
                let e = &ix.exps[*i];
                (e.trace, ix.id_of(e.parent), false)
            })
            .collect();
        for (_, r) in recs {
            let mut found = false;
            // exact match first
            for e in expected.iter_mut() {
                if !e.2 && e.0 == r.trace_id.0 && e.1 == Some(r.parent_id.0) {
                    e.2 = true;
                    found = true;
                    break;
                }
            }
            if !found {
                // parent unknown to the harness: accept on trace only
                for e in expected.iter_mut() {
                    if !e.2 && e.0 == r.trace_id.0 && e.1.is_none() {
                        e.2 = true;
                        found = true;
                        break;
                    }
                }
            }
            if !found {
                let traces: Vec<u128> = expected.iter().map(|e| e.0).collect();
                if !traces.contains(&r.trace_id.0) {
                    out.push(v(
                        "C02",
                        "wrong-trace-id",
                        format!("record {:?} delivered with trace id {:#x}, expected one of {:x?}", name, r.trace_id.0, traces),
                    ));
                } else if expected.iter().any(|e| e.0 == r.trace_id.0 && !e.2) {
                    let exp: Vec<Option<u64>> = expected.iter().filter(|e| e.0 == r.trace_id.0).map(|e| e.1).collect();
                    let kind = match src0 {
                        Src::Span(s) if h.spans[s].is_root => "root",
                        Src::Span(_) => "span",
                        Src::Local(_) => "local",
                        Src::Pushed(_, _) => "pushed",
                    };
                    out.push(v(
                        "C02",
                        format!("wrong-parent-id:{}", kind),
                        format!(
                            "record {:?} in trace {:#x} has parent id {:#x}, expected {:x?}",
                            name, r.trace_id.0, r.parent_id.0, exp
                        ),
                    ));
                } else {
                    out.push(v(
                        "C02",
                        "extra-copy",
                        format!("record {:?} delivered more often in trace {:#x} than it has parents there", name, r.trace_id.0),
                    ));
                }
            }
        }
        if complete_multi && !h.cancelable && eis.len() > 1 && !eop {
            let missing = expected.iter().filter(|e| !e.2).count();
            if missing > 0 {
                out.push(v(
                    "C02",
                    "multi-parent-copy-missing",
                    format!("span {:?} has {} sampled parents but {} copies are missing", name, eis.len(), missing),
                ));
            }
        }
    }
    out
}

// ---------------------------------------------------------------------------------------------
// C01 (operation-boundary part): exactly once, nothing invented, by the next cycle
// ---------------------------------------------------------------------------------------------
pub fn c01_api(ix: &Index) -> Vec<Viol> {
    let mut out = Vec::new();
    let h = ix.h;
    if names_ambiguous(h) || h.cancelable {
        return out;
    }
    // expected multiset (name, trace)
    let mut expected: BTreeMap<(&str, u128), (usize, T)> = BTreeMap::new();
    for e in &ix.exps {
        let ent = expected.entry((e.name.as_str(), e.trace)).or_insert((0, 0));
        ent.0 += 1;
        ent.1 = ent.1.max(e.fin.1);
    }
    let mut got: BTreeMap<(&str, u128), Vec<usize>> = BTreeMap::new();
    for (name, recs) in &ix.by_name {
        for (bi, r) in recs {
            got.entry((name, r.trace_id.0)).or_default().push(*bi);
        }
    }
    for (k, (n, fin)) in &expected {
        let g = got.get(k).map(|v| v.len()).unwrap_or(0);
        if g < *n {
            out.push(v(
                "C01",
                "missing-record",
                format!("record {:?} of trace {:#x} expected {} time(s), delivered {}", k.0, k.1, n, g),
            ));
        } else if g > *n {
            out.push(v(
                "C01",
                "duplicate-record",
                format!("record {:?} of trace {:#x} expected {} time(s), delivered {}", k.0, k.1, n, g),
            ));
        }
        // deadline: the first complete cycle starting after the finishing call returned
        if let (Some(bis), Some((_, dl))) = (got.get(k), ix.first_cycle_after(*fin)) {
            for bi in bis {
                if h.batches[*bi].t > dl {
                    out.push(v(
                        "C01",
                        "late-record",
                        format!("record {:?} finished at t={} was not delivered by the cycle ending at t={}", k.0, fin, dl),
                    ));
                }
            }
        }
    }
    for (k, bis) in &got {
        if !expected.contains_key(k) && !k.0.starts_with("fill-") {
            out.push(v(
                "C01",
                "unexpected-record",
                format!("record {:?} trace {:#x} delivered {} time(s) but nothing like it was recorded in a sampled trace", k.0, k.1, bis.len()),
            ));
        }
    }
    // every flush(): all records finished before the call are reported when it returns
    for f in &h.flushes {
        let Some(t1) = f.t1 else { continue };
        for e in &ix.exps {
            if e.fin.1 < f.t0 {
                let ok = ix
                    .by_name
                    .get(e.name.as_str())
                    .map(|rs| rs.iter().any(|(bi, r)| r.trace_id.0 == e.trace && h.batches[*bi].t <= t1))
                    .unwrap_or(false);
                if !ok {
                    out.push(v(
                        "C01",
                        "not-delivered-by-flush",
                        format!("record {:?} finished before flush() (t={}) but was not reported when it returned (t={})", e.name, f.t0, t1),
                    ));
                }
            }
        }
    }
    if !h.orphan_records.is_empty() {
        out.push(v("C01", "orphan-records", format!("{} records reported outside the case", h.orphan_records.len())));
    }
    out
}

// ---------------------------------------------------------------------------------------------
// C05: sampling
// ---------------------------------------------------------------------------------------------
pub fn c05(ix: &Index) -> Vec<Viol> {
    let mut out = Vec::new();
    let h = ix.h;
    if names_ambiguous(h) {
        return out;
    }
    // names owned by objects: which traces are sampled for them
    let mut all_names: HashMap<&str, (HashSet<u128>, HashSet<u128>)> = HashMap::new(); // (sampled traces, unsampled traces)
    for s in &h.spans {
        if s.noop {
            continue;
        }
        let e = all_names.entry(s.name.as_str()).or_default();
        for it in &s.items {
            if it.sampled {
                e.0.insert(it.trace);
            } else {
                e.1.insert(it.trace);
            }
        }
    }
    for l in &h.locals {
        if let ScopeKind::Parent { items, .. } = &h.scopes[l.scope].kind {
            let e = all_names.entry(l.name.as_str()).or_default();
            for it in items {
                if it.sampled {
                    e.0.insert(it.trace);
                } else {
                    e.1.insert(it.trace);
                }
            }
        }
    }
    let unsampled_only_traces: HashSet<u128> = {
        let mut s: HashSet<u128> = HashSet::new();
        let mut sampled: HashSet<u128> = HashSet::new();
        for sp in &h.spans {
            for it in &sp.items {
                if it.sampled {
                    sampled.insert(it.trace);
                } else {
                    s.insert(it.trace);
                }
            }
        }
        s.difference(&sampled).cloned().collect()
    };
    for (name, recs) in &ix.by_name {
        for (_, r) in recs {
            if unsampled_only_traces.contains(&r.trace_id.0) {
                out.push(v(
                    "C05",
                    "record-in-unsampled-trace",
                    format!("record {:?} delivered with the id of unsampled trace {:#x}", name, r.trace_id.0),
                ));
            }
            if let Some((s, u)) = all_names.get(*name) {
                if !s.contains(&r.trace_id.0) && u.contains(&r.trace_id.0) {
                    out.push(v(
                        "C05",
                        "unsampled-item-delivered",
                        format!("span {:?} delivered in trace {:#x} where its parent is unsampled", name, r.trace_id.0),
                    ));
                }
            }
        }
    }
    // pushes onto unsampled items, attachments on unsampled-only targets
    let mut delivered_keys: HashSet<&str> = HashSet::new();
    let mut delivered_events: HashSet<&str> = HashSet::new();
    for b in &h.batches {
        for r in &b.records {
            for (k, _) in &r.properties {
                delivered_keys.insert(k.as_ref());
            }
            for e in &r.events {
                delivered_events.insert(e.name.as_ref());
                for (k, _) in &e.properties {
                    delivered_keys.insert(k.as_ref());
                }
            }
        }
    }
    for a in &h.atts {
        let sampled_somewhere = match a.target {
            ARef::Span(s) => h.spans[s].items.iter().any(|i| i.sampled),
            ARef::Local(l) => h.scopes[h.locals[l].scope].sampled_any,
            ARef::ScopeRoot(sc) => h.scopes[sc].sampled_any,
        };
        if sampled_somewhere {
            continue;
        }
        match &a.kind {
            AKind::Props(ps) => {
                for (k, _) in ps {
                    if delivered_keys.contains(k.as_str()) {
                        out.push(v("C05", "unsampled-property-delivered", format!("property {:?} attached in an unsampled trace was delivered", k)));
                    }
                }
            }
            AKind::Event { name, .. } => {
                if delivered_events.contains(name.as_str()) {
                    out.push(v("C05", "unsampled-event-delivered", format!("event {:?} attached in an unsampled trace was delivered", name)));
                }
            }
        }
    }
    // what was issued where nothing records (under the scope of an unsampled span in particular)
    // is delivered nowhere, not even on a record of an enclosing sampled scope
    for n in &h.dark_names {
        if n.is_empty() {
            continue;
        }
        if delivered_keys.contains(n.as_str()) || delivered_events.contains(n.as_str()) || ix.by_name.contains_key(n.as_str()) {
            out.push(v("C05", "non-recording-context-item-delivered", format!("{:?} was issued where nothing records (no scope, or the scope of a span of an unsampled trace) but was delivered", n)));
        }
    }
    // mixed-parent spans are delivered exactly in their sampled parents' traces (default config)
    if !h.cancelable {
        for (si, s) in h.spans.iter().enumerate() {
            if s.noop || s.finish_t.is_none() {
                continue;
            }
            let ns = s.items.iter().filter(|i| i.sampled).count();
            let nu = s.items.len() - ns;
            if ns > 0 && nu > 0 {
                let got = ix.by_name.get(s.name.as_str()).map(|r| r.len()).unwrap_or(0);
                if got != ns {
                    out.push(v(
                        "C05",
                        "mixed-parent-copies",
                        format!("span #{} {:?} has {} sampled and {} unsampled parents but {} copies were delivered", si, s.name, ns, nu, got),
                    ));
                }
            }
        }
    }
    // local spans recorded under a local parent with mixed parents go to the sampled ones
    if !h.cancelable && !h.limit_hit {
        for l in &h.locals {
            let sc = &h.scopes[l.scope];
            if let (ScopeKind::Parent { items, .. }, Some(_)) = (&sc.kind, sc.close_t) {
                let ns = items.iter().filter(|i| i.sampled).count();
                if ns > 0 && ns < items.len() && l.via != "eop" {
                    let got = ix.by_name.get(l.name.as_str()).map(|r| r.len()).unwrap_or(0);
                    if got != ns {
                        out.push(v(
                            "C05",
                            "mixed-scope-local-copies",
                            format!("local span {:?} recorded under a local parent with {} sampled and {} unsampled parents was delivered {} time(s)", l.name, ns, items.len() - ns, got),
                        ));
                    }
                }
            }
        }
    }
    // contexts extracted in unsampled traces
    for c in &h.ctxs {
        if let Some(e) = &c.exp {
            if !e.sampled {
                match c.obs {
                    Some((t, _, s)) => {
                        if s {
                            out.push(v("C05", "ctx-sampled-flag", format!("context extracted in unsampled trace {:#x} says sampled=true", e.trace)));
                        }
                        if t != e.trace {
                            out.push(v("C05", "ctx-trace-id", format!("context extracted in unsampled trace {:#x} carries trace id {:#x}", e.trace, t)));
                        }
                    }
                    None => out.push(v("C05", "ctx-missing", format!("no context could be extracted from a span of unsampled trace {:#x}", e.trace))),
                }
            }
        }
    }
    out
}

// ---------------------------------------------------------------------------------------------
// C06: attachments
// ---------------------------------------------------------------------------------------------

/// where a key / event name was delivered: (batch, record name, trace, span id, position in the record)
#[derive(Clone, Debug)]
struct Loc<'a> {
    rec: &'a SpanRecord,
    pos: usize,
    value: Option<&'a str>,
    on_event: Option<&'a str>,
    bi: usize,
}

pub fn c06(ix: &Index) -> Vec<Viol> {
    c06_impl(ix, None)
}

/// the per-attachment part of C06 for the attachments selected by `only` (used by C13/C14 for
/// what is recorded through the local parent during an adapter's polls)
pub fn c06_only(ix: &Index, only: &dyn Fn(&MAtt) -> bool) -> Vec<Viol> {
    c06_impl(ix, Some(only))
}

fn c06_impl(ix: &Index, only: Option<&dyn Fn(&MAtt) -> bool>) -> Vec<Viol> {
    let mut out = Vec::new();
    let h = ix.h;
    if names_ambiguous(h) {
        return out;
    }
    let mut keys: HashMap<&str, Vec<Loc>> = HashMap::new();
    let mut events: HashMap<&str, Vec<Loc>> = HashMap::new();
    let mut key_uses: HashMap<&str, usize> = HashMap::new();
    for a in &h.atts {
        if let AKind::Props(ps) = &a.kind {
            for (k, _) in ps {
                *key_uses.entry(k.as_str()).or_insert(0) += 1;
            }
        }
    }
    for (bi, b) in h.batches.iter().enumerate() {
        for r in &b.records {
            for (pos, (k, val)) in r.properties.iter().enumerate() {
                keys.entry(k.as_ref()).or_default().push(Loc {
                    rec: r,
                    pos,
                    value: Some(val.as_ref()),
                    on_event: None,
                    bi,
                });
            }
            for (epos, e) in r.events.iter().enumerate() {
                events.entry(e.name.as_ref()).or_default().push(Loc {
                    rec: r,
                    pos: epos,
                    value: None,
                    on_event: None,
                    bi,
                });
                for (pos, (k, val)) in e.properties.iter().enumerate() {
                    keys.entry(k.as_ref()).or_default().push(Loc {
                        rec: r,
                        pos,
                        value: Some(val.as_ref()),
                        on_event: Some(e.name.as_ref()),
                        bi,
                    });
                }
            }
        }
    }
    // known keys / event names
    let mut known_keys: HashSet<&str> = HashSet::new();
    let mut known_events: HashSet<&str> = HashSet::new();
    for a in &h.atts {
        match &a.kind {
            AKind::Props(ps) => {
                for (k, _) in ps {
                    known_keys.insert(k.as_str());
                }
            }
            AKind::Event { name, props } => {
                known_events.insert(name.as_str());
                for (k, _) in props {
                    known_keys.insert(k.as_str());
                }
            }
        }
    }
    for k in keys.keys() {
        if only.is_some() {
            break;
        }
        if !known_keys.contains(k) && !k.starts_with("bk") {
            out.push(v("C06", "unknown-property", format!("delivered property key {:?} was never attached", k)));
        }
    }
    for e in events.keys() {
        if only.is_some() {
            break;
        }
        if !known_events.contains(e) && *e != "f" && !e.starts_with("be") {
            out.push(v("C06", "unknown-event", format!("delivered event {:?} was never attached", e)));
        }
    }

    // per attachment
    // (record name, trace, span id) -> [(route, vt, att idx, position)] for the order check
    let mut order: HashMap<(String, u128, bool), Vec<(Route, usize, usize, usize, Option<usize>)>> = HashMap::new();
    for (ai, a) in h.atts.iter().enumerate() {
        if let Some(f) = only {
            if !f(a) {
                continue;
            }
        }
        // target records: name + the set of expected copies
        let (tname, copies): (String, Vec<&Exp>) = match a.target {
            ARef::Span(s) => (
                h.spans[s].name.clone(),
                ix.exps.iter().filter(|e| e.src == Src::Span(s)).collect(),
            ),
            ARef::Local(l) => (
                h.locals[l].name.clone(),
                ix.exps
                    .iter()
                    .filter(|e| matches!(e.src, Src::Local(x) | Src::Pushed(_, x) if x == l))
                    .collect(),
            ),
            ARef::ScopeRoot(sc) => match &h.scopes[sc].kind {
                ScopeKind::Parent { span, .. } => (
                    h.spans[*span].name.clone(),
                    ix.exps.iter().filter(|e| e.src == Src::Span(*span)).collect(),
                ),
                ScopeKind::Collector => {
                    // attaches to every span the set is pushed to; handled as "may" (the target's
                    // record must already be known to the collector when the set arrives)
                    (String::new(), vec![])
                }
            },
        };
        let collector_root = matches!(a.target, ARef::ScopeRoot(sc) if matches!(h.scopes[sc].kind, ScopeKind::Collector));
        // delivered locations of this attachment
        let (locs, what): (Vec<&Loc>, String) = match &a.kind {
            AKind::Props(ps) => {
                let mut l = Vec::new();
                for (k, val) in ps {
                    if let Some(ls) = keys.get(k.as_str()) {
                        // a key attached more than once (a property that is updated) is told
                        // apart by its value, which is unique in that case
                        if key_uses.get(k.as_str()).copied().unwrap_or(0) > 1 {
                            l.extend(ls.iter().filter(|x| x.value == Some(val.as_str())));
                        } else {
                            l.extend(ls.iter());
                        }
                    }
                }
                (l, format!("property {:?}", ps.first().map(|p| p.0.as_str()).unwrap_or("")))
            }
            AKind::Event { name, .. } => (
                events.get(name.as_str()).map(|l| l.iter().collect()).unwrap_or_default(),
                format!("event {:?}", name),
            ),
        };
        // 1. never on another record
        for l in &locs {
            let ok_name = if collector_root {
                // must be a span the set was pushed to
                let sc = match a.target {
                    ARef::ScopeRoot(sc) => sc,
                    _ => unreachable!(),
                };
                h.pushes
                    .iter()
                    .any(|p| h.sets[p.set].scope == sc && h.spans[p.span].name == l.rec.name.as_ref())
            } else {
                l.rec.name.as_ref() == tname
            };
            if !ok_name || (l.on_event.is_some() && matches!(a.kind, AKind::Props(_))) {
                out.push(v(
                    "C06",
                    "attached-to-wrong-record",
                    format!("{} attached to {:?} was delivered on record {:?}", what, tname, l.rec.name),
                ));
            }
        }
        if collector_root {
            continue;
        }
        // 2. per copy: exactly once when 'must', at most once otherwise
        let nkeys = match &a.kind {
            AKind::Props(ps) => ps.len(),
            AKind::Event { .. } => 1,
        };
        // group expected copies by (trace, unit)
        let mut seen_traces: HashMap<(u128, usize), usize> = HashMap::new();
        for e in &copies {
            *seen_traces.entry((e.trace, e.unit)).or_insert(0) += 1;
        }
        // two collection units (roots) may share one trace id (a root continuing the trace of
        // a live one): the target's copies under both are told apart only by their root, so the
        // counts are taken per trace id and nothing is demanded
        let mut per_trace: HashMap<u128, (usize, usize)> = HashMap::new();
        for ((trace, _), n) in &seen_traces {
            let e = per_trace.entry(*trace).or_insert((0, 0));
            e.0 += 1;
            e.1 += *n;
        }
        for ((trace, unit), ncopies) in seen_traces {
            let (units_here, copies_here) = per_trace[&trace];
            let shared_trace_id = units_here > 1;
            let ncopies = if shared_trace_id { copies_here } else { ncopies };
            let here: Vec<&&Loc> = locs.iter().filter(|l| l.rec.trace_id.0 == trace && l.rec.name.as_ref() == tname).collect();
            let target_delivered = ix
                .by_name
                .get(tname.as_str())
                .map(|rs| rs.iter().filter(|r| r.1.trace_id.0 == trace).count())
                .unwrap_or(0);
            let root = &h.spans[unit];
            // the property's precondition
            let e0 = copies.iter().find(|e| e.trace == trace && e.unit == unit).unwrap();
            let target_fin = e0.fin;
            let before_root = match (root.finish_t, e0.src) {
                (_, Src::Span(s)) if s == unit => true,
                (Some(rf), _) => target_fin.1 < rf.0,
                (None, _) => true,
            };
            let scope_before = match (a.route, a.scope, a.target) {
                (Route::Local, Some(sc), ARef::ScopeRoot(_)) => match h.scopes[sc].close_t {
                    Some(ct) => ct.1 < target_fin.0,
                    None => false,
                },
                _ => true,
            };
            let cancelled = ix.root_cancelled(unit);
            let default_cancel = !h.cancelable && !root.cancel_t.is_empty();
            let must = before_root && scope_before && target_delivered == ncopies && !cancelled && a.t.1 < target_fin.0.max(a.t.1 + 1) && !h.overflow_atts.contains(&ai) && !shared_trace_id;
            if shared_trace_id && a.route != Route::Creation {
                // copies under two roots of one trace id: only "never more than once per copy"
                if here.len() > nkeys * ncopies {
                    out.push(v("C06", "attachment-duplicated", format!("{} attached once to {:?} was delivered {} times in trace {:#x} ({} copies)", what, tname, here.len(), trace, ncopies)));
                }
                continue;
            }
            if ncopies > 1 && a.route != Route::Creation {
                // known-finding shape: several copies of the target inside one collection unit
                let total = here.len();
                if total != ncopies * nkeys || {
                    // evenly distributed?
                    let mut per: HashMap<*const SpanRecord, usize> = HashMap::new();
                    for l in &here {
                        *per.entry(l.rec as *const _).or_insert(0) += 1;
                    }
                    per.values().any(|c| *c != nkeys) || per.len() != ncopies
                } {
                    if must {
                        out.push(v(
                            "C06",
                            "dup-unit-copies",
                            format!(
                                "{} attached to {:?}, which has {} copies in one trace, is not delivered once on each copy ({} occurrences)",
                                what, tname, ncopies, total
                            ),
                        ));
                    }
                }
                continue;
            }
            let per_copy_expected = nkeys;
            if here.len() > per_copy_expected * ncopies {
                out.push(v(
                    "C06",
                    "attachment-duplicated",
                    format!("{} attached once to {:?} was delivered {} times in trace {:#x}", what, tname, here.len(), trace),
                ));
            }
            if must && here.len() < per_copy_expected * ncopies {
                let tvt = src_vt(h, e0.src);
                // the command that carries the attachment enters the thread's queue when the
                // call returns (handle route) or when the carrying local-parent scope ends
                let pushed = match (a.route, a.scope.and_then(|sc| h.scopes[sc].close_t)) {
                    (Route::Local, Some(ct)) => ct,
                    _ => a.t,
                };
                let cut = inconsistent_cut_possible(h, unit, Some((a.vt, pushed))) || (Some(a.vt) != tvt && cycle_spans(h, pushed.1, target_fin.0));
                let sig = if cut {
                    "attachment-lost:inconsistent-cut".to_string()
                } else if default_cancel {
                    "attachment-lost:after-noop-cancel".to_string()
                } else {
                    format!("attachment-lost:{:?}", a.route)
                };
                out.push(v(
                    "C06",
                    sig,
                    format!(
                        "{} attached to {:?} (route {:?}, vt{}) at t={:?} is missing from its record in trace {:#x} (target finished t={:?})",
                        what, tname, a.route, a.vt, a.t, trace, target_fin
                    ),
                ));
            }
            // 3. value / name unchanged
            if let AKind::Props(ps) = &a.kind {
                for (k, val) in ps {
                    for l in here.iter().filter(|l| l.value.is_some()) {
                        let dk = l.rec.properties.get(l.pos).map(|p| p.0.as_ref());
                        if dk == Some(k.as_str()) && l.value != Some(val.as_str()) {
                            out.push(v("C06", "value-changed", format!("property {:?} delivered with value {:?}, attached {:?}", k, l.value, val)));
                        }
                    }
                }
            }
            if let AKind::Event { props, .. } = &a.kind {
                for l in &here {
                    if let Some(ev) = l.rec.events.get(l.pos) {
                        let got: Vec<(&str, &str)> = ev.properties.iter().map(|(k, v)| (k.as_ref(), v.as_ref())).collect();
                        let want: Vec<(&str, &str)> = props.iter().map(|(k, v)| (k.as_str(), v.as_str())).collect();
                        if got != want {
                            out.push(v("C06", "event-properties-changed", format!("{} delivered with properties {:?}, attached {:?}", what, got, want)));
                        }
                    }
                }
            }
            // order bookkeeping (first key position)
            if let Some(l) = here.first() {
                let is_event = matches!(a.kind, AKind::Event { .. });
                order
                    .entry((tname.clone(), trace, is_event))
                    .or_default()
                    .push((a.route, a.vt, ai, l.pos, a.scope));
            }
        }
    }
    // 4. order per (route, vthread) on each record
    if only.is_some() {
        order.clear();
    }
    for ((tname, _trace, _ev), mut v_) in order {
        v_.sort_by_key(|x| x.2);
        // "same route" for the local route means the same carrying local-parent scope: scopes are
        // submitted when their guards drop, so attachments carried by different (nested) scopes
        // have no defined relative order
        let mut last: HashMap<(Route, usize, Option<usize>), usize> = HashMap::new();
        let mut first_non_creation: Option<usize> = None;
        for (route, vt, _ai, pos, sc) in &v_ {
            if *route != Route::Creation {
                first_non_creation = Some(first_non_creation.map_or(*pos, |p: usize| p.min(*pos)));
            }
            if let Some(prev) = last.get(&(*route, *vt, *sc)) {
                if pos < prev {
                    out.push(v(
                        "C06",
                        "attachment-order",
                        format!("attachments made through route {:?} by vt{} appear out of order on record {:?}", route, vt, tname),
                    ));
                }
            }
            last.insert((*route, *vt, *sc), *pos);
        }
        for (route, _, _, pos, _) in &v_ {
            if *route == Route::Creation && !_ev {
                if let Some(f) = first_non_creation {
                    if *pos > f {
                        out.push(v("C06", "creation-props-not-first", format!("creation-time properties of {:?} do not come first", tname)));
                    }
                }
            }
        }
    }
    out
}

// ---------------------------------------------------------------------------------------------
// C10: frame condition on the local context
// ---------------------------------------------------------------------------------------------
pub fn c10(ix: &Index) -> Vec<Viol> {
    let mut out = Vec::new();
    let h = ix.h;
    if names_ambiguous(h) {
        return out;
    }
    // a scope operation that panics (e.g. on the library's own nesting assertions) means the
    // thread's local context is no longer what the well-nested program says
    for p in &h.panics {
        out.push(v("C10", format!("panic:{}", p.op), format!("vt{}: {} panicked during a well-nested scope sequence: {}", p.vt, p.op, p.msg)));
    }
    let mut groups: BTreeMap<(usize, u64), Vec<&Probe>> = BTreeMap::new();
    for p in &h.probes {
        groups.entry((p.vt, p.ctx_ver)).or_default().push(p);
    }
    // event locations
    let mut ev_loc: HashMap<&str, Vec<(&str, u128, u64)>> = HashMap::new();
    for b in &h.batches {
        for r in &b.records {
            for e in &r.events {
                ev_loc
                    .entry(e.name.as_ref())
                    .or_default()
                    .push((r.name.as_ref(), r.trace_id.0, r.span_id.0));
            }
        }
    }
    // a LocalCollector scope records what happens inside it, whatever scope encloses it: the
    // collected set holds exactly the local spans entered in the scope
    if !h.limit_hit {
        for set in &h.sets {
            let mut want: Vec<&str> = h.locals.iter().filter(|l| l.scope == set.scope).map(|l| l.name.as_str()).collect();
            let mut got: Vec<&str> = set.snapshot.iter().map(|s| s.as_str()).collect();
            want.sort();
            got.sort();
            if want != got {
                out.push(v(
                    "C10",
                    "collector-scope-content",
                    format!("a LocalCollector scope on vt{} (depth {}) recorded {} local spans, its collected set holds {}: {:?} vs {:?}", h.scopes[set.scope].vt, h.scopes[set.scope].depth, want.len(), got.len(), want.iter().take(4).collect::<Vec<_>>(), got.iter().take(4).collect::<Vec<_>>()),
                ));
            }
            // ... and exactly the local events added inside it through any entry point: those
            // added while one of its local spans was open sit on a record of the set
            let mut must: Vec<&str> = Vec::new();
            let mut may: HashSet<&str> = HashSet::new();
            for (i, a) in h.atts.iter().enumerate() {
                if a.scope != Some(set.scope) || !matches!(a.route, Route::Local) {
                    continue;
                }
                if let AKind::Event { name, .. } = &a.kind {
                    may.insert(name.as_str());
                    if matches!(a.target, ARef::Local(_)) && !h.overflow_atts.contains(&i) {
                        must.push(name.as_str());
                    }
                }
            }
            let got: HashSet<&str> = set.snapshot_events.iter().map(|s| s.as_str()).collect();
            if let Some(m) = must.iter().find(|m| !got.contains(**m)) {
                out.push(v(
                    "C10",
                    "collector-scope-event-lost",
                    format!("a local event {:?} added inside a LocalCollector scope on vt{} while one of its local spans was open is not in the collected set ({} of {} events present)", m, h.scopes[set.scope].vt, must.iter().filter(|m| got.contains(**m)).count(), must.len()),
                ));
            }
            if let Some(g) = got.iter().find(|g| !may.contains(**g)) {
                out.push(v("C10", "collector-scope-foreign-event", format!("the set collected by a LocalCollector scope on vt{} holds an event {:?} that was not added inside that scope", h.scopes[set.scope].vt, g)));
            }
        }
    }
    // property locations (span properties only; properties of events are not probes)
    let mut prop_loc: HashMap<&str, Vec<(&str, u128, u64)>> = HashMap::new();
    for b in &h.batches {
        for r in &b.records {
            for (k, _) in &r.properties {
                if k.starts_with("probe-k") {
                    prop_loc.entry(k.as_ref()).or_default().push((r.name.as_ref(), r.trace_id.0, r.span_id.0));
                }
            }
        }
    }
    for ((vt, ver), ps) in &groups {
        let base_ctx = *ver >= 1_000_000;
        for p in ps.iter() {
            if base_ctx {
                // no scope open: local operations are inert
                if p.clp.is_some() {
                    out.push(v("C10", "inert-clp", format!("vt{}: current_local_parent() is Some with no local parent in scope", vt)));
                }
                if !p.span_is_noop || ix.by_name.contains_key(p.span_name.as_str()) {
                    out.push(v("C10", "inert-span", format!("vt{}: Span::enter_with_local_parent recorded a span with no local parent in scope", vt)));
                }
                if ev_loc.contains_key(p.event_name.as_str()) {
                    out.push(v("C10", "inert-event", format!("vt{}: LocalSpan::add_event was delivered with no local parent in scope", vt)));
                }
                if prop_loc.contains_key(p.prop_key.as_str()) {
                    out.push(v("C10", "inert-property", format!("vt{}: LocalSpan::add_property was delivered with no local parent in scope", vt)));
                }
            }
        }
        let first = ps[0];
        let span_sig = |p: &Probe| -> Option<Vec<(u128, u64)>> {
            ix.by_name.get(p.span_name.as_str()).map(|rs| {
                let mut v_: Vec<(u128, u64)> = rs.iter().map(|r| (r.1.trace_id.0, r.1.parent_id.0)).collect();
                v_.sort();
                v_
            })
        };
        let ev_sig = |p: &Probe| -> Option<Vec<(&str, u128, u64)>> {
            ev_loc.get(p.event_name.as_str()).map(|l| {
                let mut l = l.clone();
                l.sort();
                l
            })
        };
        let prop_sig = |p: &Probe| -> Option<Vec<(&str, u128, u64)>> {
            prop_loc.get(p.prop_key.as_str()).map(|l| {
                let mut l = l.clone();
                l.sort();
                l
            })
        };
        for p in ps.iter().skip(1) {
            let what = format!("vt{} context #{} (t={} vs t={}, depth {})", vt, ver, first.t, p.t, p.depth);
            if !first.clp_panicked && !p.clp_panicked && first.clp != p.clp {
                out.push(v(
                    "C10",
                    "frame-clp",
                    format!("{}: current_local_parent() changed from {:x?} to {:x?}", what, first.clp, p.clp),
                ));
            }
            if first.span_is_noop != p.span_is_noop {
                out.push(v("C10", "frame-span-noop", format!("{}: enter_with_local_parent recording changed", what)));
            }
            if !h.cancelable {
                let (a, b) = (span_sig(first), span_sig(p));
                if a != b {
                    out.push(v(
                        "C10",
                        "frame-span-parent",
                        format!("{}: spans created in the same context were delivered under different parents: {:x?} vs {:x?}", what, a, b),
                    ));
                }
                if !h.limit_hit {
                    let (a, b) = (ev_sig(first), ev_sig(p));
                    if a != b {
                        out.push(v(
                            "C10",
                            "frame-event-target",
                            format!("{}: local events added in the same context were delivered on different records: {:?} vs {:?}", what, a, b),
                        ));
                    }
                    let (a, b) = (prop_sig(first), prop_sig(p));
                    if a != b {
                        out.push(v(
                            "C10",
                            "frame-property-target",
                            format!("{}: local properties added in the same context were delivered on different records: {:?} vs {:?}", what, a, b),
                        ));
                    }
                }
            }
        }
    }
    out
}

// ---------------------------------------------------------------------------------------------
// C11: extracted contexts
// ---------------------------------------------------------------------------------------------
pub fn c11(ix: &Index) -> Vec<Viol> {
    let mut out = Vec::new();
    let h = ix.h;
    // a context the library itself returned did not survive its own text form: no remote child can
    // be created in that trace (the decoder's strictness on foreign text is C12's business)
    for p in &h.panics {
        if p.op == "traceparent round trip" && p.msg.starts_with("decode(encode(") {
            out.push(v("C11", "roundtrip:context-lost", format!("an extracted context did not survive encode_w3c_traceparent / decode_w3c_traceparent: {}", p.msg)));
        }
    }
    if names_ambiguous(h) {
        return out;
    }
    for c in &h.ctxs {
        let src = match &c.src {
            CtxSrc::Span(s) => format!("from_span(#{} {:?})", s, h.spans[*s].how),
            CtxSrc::Local { vt } => format!("current_local_parent() on vt{}", vt),
        };
        let kind = match &c.src {
            CtxSrc::Span(_) => "from_span",
            CtxSrc::Local { .. } => "current_local_parent",
        };
        match (&c.exp, &c.obs) {
            (None, None) => {}
            (None, Some(o)) => out.push(v(
                "C11",
                format!("{}:some-for-no-trace", kind),
                format!("{} returned {:x?} but the span belongs to no trace / no local parent is in scope", src, o),
            )),
            (Some(e), None) => out.push(v(
                "C11",
                format!("{}:none", kind),
                format!("{} returned None, expected trace {:#x}", src, e.trace),
            )),
            (Some(e), Some(o)) => {
                if o.0 != e.trace {
                    out.push(v(
                        "C11",
                        format!("{}:trace-id", kind),
                        format!("{} returned trace {:#x}, expected {:#x} (first parent's trace)", src, o.0, e.trace),
                    ));
                }
                if o.2 != e.sampled {
                    out.push(v("C11", format!("{}:sampled", kind), format!("{} returned sampled={}, expected {}", src, o.2, e.sampled)));
                }
                // span id: the delivered record of that span, matched by name
                let want = match e.who {
                    PRef::Span(s) => ix.by_name.get(h.spans[s].name.as_str()).map(|r| r[0].1.span_id.0),
                    PRef::Local(l) if h.locals[l].via == "eop" => None,
                    PRef::Local(l) => {
                        let rs = ix.by_name.get(h.locals[l].name.as_str());
                        rs.and_then(|rs| {
                            let ids: HashSet<u64> = rs.iter().map(|r| r.1.span_id.0).collect();
                            if ids.len() == 1 {
                                ids.into_iter().next()
                            } else {
                                None
                            }
                        })
                    }
                    PRef::Remote(x) => Some(x),
                };
                if let Some(wid) = want {
                    if wid != o.1 {
                        out.push(v(
                            "C11",
                            format!("{}:span-id", kind),
                            format!("{} returned span id {:#x}, but that span's record has id {:#x}", src, o.1, wid),
                        ));
                    }
                }
            }
        }
    }
    // the span id in a context identifies the span it was extracted from, whether or not its
    // trace is sampled (downstream services hang their spans under it): never zero, never shared
    // by two spans
    let mut seen: HashMap<u64, usize> = HashMap::new();
    for (i, s) in h.spans.iter().enumerate() {
        if s.noop {
            continue;
        }
        let Some(id) = s.api_id else { continue };
        if id == 0 {
            out.push(v("C11", "from_span:span-id-zero", format!("from_span(#{} {:?}) carries span id 0 ({})", i, s.how, if s.items.iter().any(|x| x.sampled) { "sampled" } else { "unsampled" })));
        } else if let Some(j) = seen.insert(id, i) {
            out.push(v("C11", "from_span:span-id-shared", format!("from_span(#{}) and from_span(#{}) carry the same span id {:#x}", j, i, id)));
        }
    }
    // remote children: same trace, parent = the extracted span
    for (si, s) in h.spans.iter().enumerate() {
        if !(s.how == "remote_root" || s.how == "remote_root_tp") || s.noop {
            continue;
        }
        let it = &s.items[0];
        if !it.sampled {
            continue;
        }
        if let Some(rs) = ix.by_name.get(s.name.as_str()) {
            for (_, r) in rs {
                if r.trace_id.0 != it.trace {
                    out.push(v(
                        "C11",
                        "remote-child-trace",
                        format!("remote child #{} delivered in trace {:#x}, expected {:#x}", si, r.trace_id.0, it.trace),
                    ));
                }
                if let Some(pid) = ix.id_of(it.parent) {
                    // only meaningful when the parent's record exists
                    let parent_delivered = match it.parent {
                        PRef::Span(p) => ix.by_name.contains_key(h.spans[p].name.as_str()),
                        PRef::Local(l) => ix.by_name.contains_key(h.locals[l].name.as_str()),
                        PRef::Remote(_) => true,
                    };
                    if parent_delivered && r.parent_id.0 != pid {
                        out.push(v(
                            "C11",
                            format!("remote-child-parent:{}", s.how),
                            format!("remote child #{} has parent id {:#x}, the extracted span's record has id {:#x}", si, r.parent_id.0, pid),
                        ));
                    }
                }
            }
        }
    }
    out
}

// ---------------------------------------------------------------------------------------------
// C17: detached local spans
// ---------------------------------------------------------------------------------------------
fn rec_sig(r: &SpanRecord) -> (u64, String, Vec<(String, String)>, Vec<(String, Vec<(String, String)>)>) {
    (
        r.span_id.0,
        r.name.to_string(),
        r.properties.iter().map(|(k, v)| (k.to_string(), v.to_string())).collect(),
        r.events
            .iter()
            .map(|e| {
                (
                    e.name.to_string(),
                    e.properties.iter().map(|(k, v)| (k.to_string(), v.to_string())).collect(),
                )
            })
            .collect(),
    )
}

pub fn c17(ix: &Index) -> Vec<Viol> {
    let mut out = Vec::new();
    let h = ix.h;
    if names_ambiguous(h) || h.limit_hit {
        return out;
    }
    // What a collector scope captured at its top level (events and properties recorded while none
    // of its local spans was open) belongs to every span the set is pushed to. Demanded only where
    // nothing else can explain an absence: the push and the parent's finish are issued by the same
    // thread in that order, the parent has one sampled parent item, is delivered exactly once, and
    // its root neither finished before it nor was cancelled.
    for (ai, a) in h.atts.iter().enumerate() {
        let ARef::ScopeRoot(sc) = a.target else { continue };
        if !matches!(h.scopes[sc].kind, ScopeKind::Collector) || !matches!(a.route, Route::Local) || h.overflow_atts.contains(&ai) {
            continue;
        }
        let Some(si) = h.scopes[sc].set else { continue };
        for p in h.pushes.iter().filter(|p| p.set == si) {
            let sp = &h.spans[p.span];
            if sp.noop || sp.items.len() != 1 || !sp.items[0].sampled {
                continue;
            }
            let Some(ft) = sp.finish_t else { continue };
            if sp.finish_vt != Some(p.vt) || p.t.1 >= ft.0 {
                continue;
            }
            let es: Vec<&Exp> = ix.exps.iter().filter(|e| e.src == Src::Span(p.span)).collect();
            if es.len() != 1 {
                continue;
            }
            let e = es[0];
            let root = &h.spans[e.unit];
            let before_root = e.unit == p.span || root.finish_t.map_or(true, |rf| ft.1 < rf.0);
            if !before_root || ix.root_cancelled(e.unit) || !root.cancel_t.is_empty() || !sp.cancel_t.is_empty() {
                continue;
            }
            let recs: Vec<&SpanRecord> = ix.by_name.get(sp.name.as_str()).map(|rs| rs.iter().filter(|r| r.1.trace_id.0 == e.trace).map(|r| r.1).collect()).unwrap_or_default();
            if recs.len() != 1 {
                continue;
            }
            let r = recs[0];
            let present = match &a.kind {
                AKind::Event { name, .. } => r.events.iter().any(|ev| ev.name.as_ref() == name.as_str()),
                AKind::Props(ps) => ps.iter().all(|(k, _)| r.properties.iter().any(|(rk, _)| rk.as_ref() == k.as_str())),
            };
            if !present {
                out.push(v(
                    "C17",
                    "pushed-top-level-entry-lost",
                    format!("an entry recorded at the top level of a LocalCollector scope on vt{} at t={:?} is missing from {:?}, to which the set was pushed at t={:?} before it finished at t={:?} on the same thread", a.vt, a.t, sp.name, p.t, ft),
                ));
            }
        }
    }
    for (si, set) in h.sets.iter().enumerate() {
        let locals: Vec<usize> = (0..h.locals.len()).filter(|l| h.locals[*l].scope == set.scope).collect();
        if locals.is_empty() {
            continue;
        }
        // copies: one per (push, sampled item)
        struct Copy<'a> {
            trace: u128,
            root_parent: Option<u64>,
            recs: Vec<(usize, &'a SpanRecord)>,
            label: String,
            unit_dups: bool,
            unit: usize,
            optional: bool,
        }
        let mut copies: Vec<Copy> = Vec::new();
        // delivered records of this set, by (trace, root parent)
        let mut pool: Vec<(usize, &SpanRecord, bool)> = Vec::new();
        for l in &locals {
            if let Some(rs) = ix.by_name.get(h.locals[*l].name.as_str()) {
                for (bi, r) in rs {
                    pool.push((*bi, r, false));
                }
            }
        }
        let mut expected_copies = 0usize;
        for (pi, p) in h.pushes.iter().enumerate().filter(|(_, p)| p.set == si) {
            let sp = &h.spans[p.span];
            let dups = dup_units(&sp.items);
            for it in sp.items.iter().filter(|i| i.sampled) {
                // in cancelable mode a copy pushed after the root finished may be absent, and a
                // copy pushed into a cancelled trace must be
                let optional = if h.cancelable {
                    let root = &h.spans[it.unit];
                    if ix.root_cancelled(it.unit) {
                        continue;
                    }
                    !root.finish_t.map(|rf| p.t.1 < rf.0).unwrap_or(false)
                } else {
                    false
                };
                expected_copies += 1;
                let pid = ix.id_of(PRef::Span(p.span));
                let mut recs = Vec::new();
                for l in &locals {
                    let name = h.locals[*l].name.as_str();
                    let is_root = h.locals[*l].parent.is_none();
                    if let Some(x) = pool.iter_mut().find(|x| {
                        !x.2 && x.1.name.as_ref() == name
                            && x.1.trace_id.0 == it.trace
                            && (!is_root || pid.is_none() || Some(x.1.parent_id.0) == pid)
                    }) {
                        x.2 = true;
                        recs.push((x.0, x.1));
                    }
                }
                copies.push(Copy {
                    trace: it.trace,
                    root_parent: pid,
                    recs,
                    label: format!("push#{} of set#{} under span#{} in trace {:#x}", pi, si, p.span, it.trace),
                    unit_dups: dups.contains(&it.unit),
                    unit: it.unit,
                    optional,
                });
            }
        }
        let _ = expected_copies;
        // several copies of the set inside one collection unit (known-finding shape for attachments)
        let units: Vec<usize> = copies.iter().map(|c| c.unit).collect();
        for c in copies.iter_mut() {
            if units.iter().filter(|u| **u == c.unit).count() > 1 {
                c.unit_dups = true;
            }
        }
        // completeness of each copy
        for c in &copies {
            if c.optional && c.recs.is_empty() {
                continue;
            }
            if c.recs.len() != locals.len() {
                out.push(v(
                    "C17",
                    "copy-incomplete",
                    format!("{}: {} of {} local spans delivered", c.label, c.recs.len(), locals.len()),
                ));
            }
        }
        for x in &pool {
            if !x.2 {
                out.push(v(
                    "C17",
                    "copy-unexpected",
                    format!("set#{}: record {:?} delivered in trace {:#x} under parent {:#x} matches no push", si, x.1.name, x.1.trace_id.0, x.1.parent_id.0),
                ));
            }
        }
        // identical subtrees
        let full: Vec<&Copy> = copies.iter().filter(|c| c.recs.len() == locals.len()).collect();
        if let Some(first) = full.first() {
            for c in full.iter().skip(1) {
                for (a, b) in first.recs.iter().zip(c.recs.iter()) {
                    let (sa, sb) = (rec_sig(a.1), rec_sig(b.1));
                    if sa.0 != sb.0 {
                        out.push(v("C17", "copies-differ:id", format!("{:?}: span id {:#x} vs {:#x} in {}", sa.1, sa.0, sb.0, c.label)));
                    }
                    if sa.2 != sb.2 {
                        if !(first.unit_dups || c.unit_dups) {
                            out.push(v("C17", "copies-differ:properties", format!("{:?}: properties differ between copies ({})", sa.1, c.label)));
                        } else {
                            out.push(v("C17", "copies-differ:properties:dup-unit", format!("{:?}: properties differ between copies ({})", sa.1, c.label)));
                        }
                    }
                    if sa.3 != sb.3 {
                        if !(first.unit_dups || c.unit_dups) {
                            out.push(v("C17", "copies-differ:events", format!("{:?}: events differ between copies ({})", sa.1, c.label)));
                        } else {
                            out.push(v("C17", "copies-differ:events:dup-unit", format!("{:?}: events differ between copies ({})", sa.1, c.label)));
                        }
                    }
                    let tol = if a.0 == b.0 { 0 } else { 2 };
                    if a.1.duration_ns.abs_diff(b.1.duration_ns) > tol {
                        out.push(v(
                            "C17",
                            "copies-differ:duration",
                            format!("{:?}: duration {} vs {} ns ({})", sa.1, a.1.duration_ns, b.1.duration_ns, c.label),
                        ));
                    }
                    // non-root parents identical
                    let li = locals[first.recs.iter().position(|x| std::ptr::eq(x.1, a.1)).unwrap()];
                    if h.locals[li].parent.is_some() && a.1.parent_id != b.1.parent_id {
                        out.push(v("C17", "copies-differ:parent", format!("{:?}: inner parent differs between copies", sa.1)));
                    }
                }
            }
        }
        for c in &full {
            for (k, (_, r)) in c.recs.iter().enumerate() {
                let li = locals[k];
                if r.trace_id.0 != c.trace {
                    out.push(v("C17", "copy-trace", format!("{}: record {:?} has trace {:#x}", c.label, r.name, r.trace_id.0)));
                }
                match h.locals[li].parent {
                    None => {
                        if let Some(pid) = c.root_parent {
                            if r.parent_id.0 != pid {
                                out.push(v("C17", "copy-root-parent", format!("{}: set root {:?} has parent {:#x}, expected {:#x}", c.label, r.name, r.parent_id.0, pid)));
                            }
                        }
                    }
                    Some(pl) => {
                        let want = c.recs[locals.iter().position(|x| *x == pl).unwrap()].1.span_id.0;
                        if r.parent_id.0 != want {
                            out.push(v("C17", "copy-inner-parent", format!("{}: {:?} has parent {:#x}, expected {:#x}", c.label, r.name, r.parent_id.0, want)));
                        }
                    }
                }
            }
        }
        // to_span_records
        for cv in h.convs.iter().filter(|c| c.set == si) {
            if cv.records.len() != locals.len() {
                out.push(v(
                    "C17",
                    "to_span_records:count",
                    format!("to_span_records of set#{} returned {} records for {} local spans", si, cv.records.len(), locals.len()),
                ));
                continue;
            }
            let mut used = vec![false; cv.records.len()];
            for (k, li) in locals.iter().enumerate() {
                let l = &h.locals[*li];
                let Some(pos) = cv.records.iter().enumerate().position(|(i, r)| !used[i] && r.name.as_ref() == l.name) else {
                    out.push(v("C17", "to_span_records:missing", format!("to_span_records of set#{} lacks {:?}", si, l.name)));
                    continue;
                };
                used[pos] = true;
                let r = &cv.records[pos];
                if r.trace_id.0 != cv.trace {
                    out.push(v("C17", "to_span_records:trace", format!("to_span_records: {:?} has trace {:#x}, context says {:#x}", r.name, r.trace_id.0, cv.trace)));
                }
                match l.parent {
                    None => {
                        if r.parent_id.0 != cv.parent {
                            out.push(v("C17", "to_span_records:root-parent", format!("to_span_records: set root {:?} has parent {:#x}, context says {:#x}", r.name, r.parent_id.0, cv.parent)));
                        }
                    }
                    Some(pl) => {
                        let pname = h.locals[pl].name.as_str();
                        let want = cv.records.iter().find(|x| x.name.as_ref() == pname).map(|x| x.span_id.0);
                        if Some(r.parent_id.0) != want {
                            out.push(v("C17", "to_span_records:inner-parent", format!("to_span_records: {:?} has parent {:#x}, expected {:x?}", r.name, r.parent_id.0, want)));
                        }
                    }
                }
                // against a delivered copy
                if let Some(c) = full.iter().find(|c| !c.unit_dups) {
                    let d = c.recs[k].1;
                    let (sa, sb) = (rec_sig(d), rec_sig(r));
                    if sa.0 != sb.0 {
                        out.push(v("C17", "to_span_records:id", format!("to_span_records: {:?} has id {:#x}, pushed copy has {:#x}", r.name, sb.0, sa.0)));
                    }
                    if sa.2 != sb.2 {
                        out.push(v("C17", "to_span_records:properties", format!("to_span_records: {:?} properties differ from the pushed copy: {:?} vs {:?}", r.name, sb.2, sa.2)));
                    }
                    if sa.3 != sb.3 {
                        out.push(v("C17", "to_span_records:events", format!("to_span_records: {:?} events differ from the pushed copy", r.name)));
                    }
                    if d.duration_ns.abs_diff(r.duration_ns) > 2 {
                        out.push(v("C17", "to_span_records:duration", format!("to_span_records: {:?} duration {} vs pushed {}", r.name, r.duration_ns, d.duration_ns)));
                    }
                    // each conversion has its own clock anchor (two clock reads that can be
                    // separated by a preemption): absolute times agree only up to that anchor
                    if d.begin_time_unix_ns.abs_diff(r.begin_time_unix_ns) > 50_000_000 {
                        out.push(v("C17", "to_span_records:begin", format!("to_span_records: {:?} begin differs by more than 50 ms from the pushed copy", r.name)));
                    }
                } else {
                    // against the model: creation properties and local attachments
                    let mut want_props: Vec<(String, String)> = Vec::new();
                    let mut want_events: Vec<String> = Vec::new();
                    for a in &h.atts {
                        if a.target == ARef::Local(*li) {
                            match &a.kind {
                                AKind::Props(ps) => want_props.extend(ps.iter().cloned()),
                                AKind::Event { name, .. } => want_events.push(name.clone()),
                            }
                        }
                    }
                    let got: Vec<(String, String)> = r.properties.iter().map(|(k, v)| (k.to_string(), v.to_string())).collect();
                    if got != want_props {
                        out.push(v("C17", "to_span_records:properties", format!("to_span_records: {:?} properties {:?}, expected {:?}", r.name, got, want_props)));
                    }
                    let gote: Vec<String> = r.events.iter().map(|e| e.name.to_string()).collect();
                    if gote != want_events {
                        out.push(v("C17", "to_span_records:events", format!("to_span_records: {:?} events {:?}, expected {:?}", r.name, gote, want_events)));
                    }
                }
                // begin time inside the run's wall-clock window
                if r.begin_time_unix_ns + 50_000_000 < h.wall_start_ns || r.begin_time_unix_ns > cv.wall1 + 50_000_000 {
                    out.push(v("C17", "to_span_records:wallclock", format!("to_span_records: {:?} begins at {} outside the run window", r.name, r.begin_time_unix_ns)));
                }
            }
        }
        // spans open at collect end at the collection time: duration within the monotonic bracket
        for (k, li) in locals.iter().enumerate() {
            let l = &h.locals[*li];
            if !l.open_at_collect || l.br.c1 == 0 {
                continue;
            }
            let lo = set.b0.saturating_sub(l.br.c1);
            let hi = set.b1.saturating_sub(l.br.c0);
            let mut durs: Vec<u64> = full.iter().map(|c| c.recs[k].1.duration_ns).collect();
            for cv in h.convs.iter().filter(|c| c.set == si) {
                if let Some(r) = cv.records.iter().find(|r| r.name.as_ref() == l.name) {
                    durs.push(r.duration_ns);
                }
            }
            for d in durs {
                if d + 5 < lo || d > hi + 5 {
                    out.push(v(
                        "C17",
                        "open-span-end",
                        format!("{:?} was open at collect(): duration {} ns, collection-time bracket [{}, {}]", l.name, d, lo, hi),
                    ));
                }
            }
        }
    }
    out
}

// ---------------------------------------------------------------------------------------------
// C18: times
// ---------------------------------------------------------------------------------------------
pub fn c18(ix: &Index) -> Vec<Viol> {
    let mut out = Vec::new();
    let h = ix.h;
    if names_ambiguous(h) {
        return out;
    }
    const EPS: u64 = 5;
    // spans
    for s in &h.spans {
        if s.noop || s.br.f1 == 0 {
            continue;
        }
        if let Some(rs) = ix.by_name.get(s.name.as_str()) {
            let lo = s.br.f0.saturating_sub(s.br.c1);
            let hi = s.br.f1.saturating_sub(s.br.c0);
            for (bi, r) in rs {
                if r.duration_ns + EPS < lo || r.duration_ns > hi + EPS {
                    out.push(v(
                        "C18",
                        "span-duration",
                        format!("span {:?}: duration {} ns outside its monotonic bracket [{}, {}]", s.name, r.duration_ns, lo, hi),
                    ));
                }
                let b = &h.batches[*bi];
                if r.begin_time_unix_ns + 50_000_000 < h.wall_start_ns || r.begin_time_unix_ns > b.wall_ns + 50_000_000 {
                    out.push(v(
                        "C18",
                        "span-begin-wallclock",
                        format!("span {:?}: begin {} outside the run's wall-clock window [{}, {}]", s.name, r.begin_time_unix_ns, h.wall_start_ns, b.wall_ns),
                    ));
                }
            }
        }
    }
    // locals: duration bracket and nesting (exact, same anchor within one batch copy)
    for (li, l) in h.locals.iter().enumerate() {
        let Some(rs) = ix.by_name.get(l.name.as_str()) else { continue };
        if l.via == "eop" || l.via == "burst" {
            continue;
        }
        for (bi, r) in rs {
            if l.br.f1 != 0 && l.br.c1 != 0 {
                let lo = l.br.f0.saturating_sub(l.br.c1);
                let hi = l.br.f1.saturating_sub(l.br.c0);
                if r.duration_ns + EPS < lo || r.duration_ns > hi + EPS {
                    out.push(v(
                        "C18",
                        "local-duration",
                        format!("local span {:?}: duration {} ns outside its monotonic bracket [{}, {}]", l.name, r.duration_ns, lo, hi),
                    ));
                }
            }
            let b = &h.batches[*bi];
            if r.begin_time_unix_ns + 50_000_000 < h.wall_start_ns || r.begin_time_unix_ns > b.wall_ns + 50_000_000 {
                out.push(v("C18", "local-begin-wallclock", format!("local span {:?}: begin outside the run window", l.name)));
            }
            // parent containment: the copy in the same batch and trace
            if let Some(pl) = l.parent {
                if let Some(prs) = ix.by_name.get(h.locals[pl].name.as_str()) {
                    if let Some((_, p)) = prs.iter().find(|(pbi, p)| pbi == bi && p.trace_id == r.trace_id && p.span_id == r.parent_id) {
                        let (cb, ce) = (r.begin_time_unix_ns, r.begin_time_unix_ns + r.duration_ns);
                        let (pb, pe) = (p.begin_time_unix_ns, p.begin_time_unix_ns + p.duration_ns);
                        if cb < pb || ce > pe {
                            out.push(v(
                                "C18",
                                "local-not-within-parent",
                                format!("local span {:?} [{}, {}] is not within its enclosing local span {:?} [{}, {}]", l.name, cb, ce, p.name, pb, pe),
                            ));
                        }
                    }
                }
            }
            // siblings: previous sibling (same scope, same parent) must end before this begins
            let prev = (0..li).rev().find(|x| h.locals[*x].scope == l.scope && h.locals[*x].parent == l.parent && h.locals[*x].via != "burst");
            if let Some(pv) = prev {
                if let Some(prs) = ix.by_name.get(h.locals[pv].name.as_str()) {
                    if let Some((_, p)) = prs.iter().find(|(pbi, p)| pbi == bi && p.trace_id == r.trace_id && p.parent_id == r.parent_id) {
                        if p.begin_time_unix_ns + p.duration_ns > r.begin_time_unix_ns {
                            out.push(v(
                                "C18",
                                "siblings-overlap",
                                format!("sibling local spans {:?} and {:?} overlap", p.name, l.name),
                            ));
                        }
                    }
                }
            }
        }
    }
    // events recorded in a local span lie within its interval
    for a in &h.atts {
        let (AKind::Event { name, .. }, ARef::Local(l), Route::Local) = (&a.kind, a.target, a.route) else { continue };
        let Some(rs) = ix.by_name.get(h.locals[l].name.as_str()) else { continue };
        for (_, r) in rs {
            for e in r.events.iter().filter(|e| e.name.as_ref() == name) {
                if e.timestamp_unix_ns < r.begin_time_unix_ns || e.timestamp_unix_ns > r.begin_time_unix_ns + r.duration_ns {
                    out.push(v(
                        "C18",
                        "event-outside-span",
                        format!("event {:?} at {} lies outside local span {:?} [{}, +{}]", name, e.timestamp_unix_ns, r.name, r.begin_time_unix_ns, r.duration_ns),
                    ));
                }
            }
        }
    }
    // ... and at the point of the span's life at which add_event was called: the offset from the
    // span's begin (both stamps are converted with the same anchor, they travel in one span set)
    // lies between (call began - span certainly started) and (call returned - span start began)
    for a in &h.atts {
        let (AKind::Event { name, .. }, ARef::Local(l), Route::Local) = (&a.kind, a.target, a.route) else { continue };
        if a.b1 == 0 || h.locals[l].br.c1 == 0 {
            continue;
        }
        let same_name = h.atts.iter().filter(|b| matches!((&b.kind, b.target), (AKind::Event { name: n2, .. }, ARef::Local(l2)) if n2 == name && l2 == l)).count();
        if same_name != 1 {
            continue;
        }
        let Some(rs) = ix.by_name.get(h.locals[l].name.as_str()) else { continue };
        let lo = a.b0.saturating_sub(h.locals[l].br.c1);
        let hi = a.b1.saturating_sub(h.locals[l].br.c0);
        for (_, r) in rs {
            let evs: Vec<_> = r.events.iter().filter(|e| e.name.as_ref() == name).collect();
            if evs.len() != 1 {
                continue;
            }
            let off = evs[0].timestamp_unix_ns.saturating_sub(r.begin_time_unix_ns);
            if off + EPS < lo || off > hi + EPS {
                out.push(v(
                    "C18",
                    "event-time-not-at-add",
                    format!("event {:?} is stamped {} ns after the begin of local span {:?}, but add_event was called between {} and {} ns after it", name, off, r.name, lo, hi),
                ));
            }
        }
    }
    // events through the handle: inside the run window
    for a in &h.atts {
        let AKind::Event { name, .. } = &a.kind else { continue };
        for b in &h.batches {
            for r in &b.records {
                for e in r.events.iter().filter(|e| e.name.as_ref() == name) {
                    if e.timestamp_unix_ns + 50_000_000 < h.wall_start_ns || e.timestamp_unix_ns > b.wall_ns + 50_000_000 {
                        out.push(v("C18", "event-wallclock", format!("event {:?} timestamp outside the run window", name)));
                    }
                }
            }
        }
    }
    // elapsed()
    for e in &h.elapsed {
        let s = &h.spans[e.span];
        match (s.noop, e.obs_ns) {
            (true, Some(_)) => out.push(v("C18", "elapsed-some-for-noop", "Span::elapsed() returned Some for a span that is not recording".to_string())),
            (false, None) => out.push(v("C18", "elapsed-none", format!("Span::elapsed() returned None for recording span {:?}", s.name))),
            (false, Some(o)) => {
                if s.br.c1 != 0 {
                    let lo = e.b0.saturating_sub(s.br.c1);
                    let hi = e.b1.saturating_sub(s.br.c0);
                    if o + EPS < lo || o > hi + EPS {
                        out.push(v("C18", "elapsed-bracket", format!("Span::elapsed() = {} ns outside [{}, {}]", o, lo, hi)));
                    }
                }
            }
            _ => {}
        }
    }
    out
}

/// C07 (in-process part): no tracing call panicked
pub fn c07(h: &Hist) -> Vec<Viol> {
    let mut out = Vec::new();
    for p in &h.panics {
        let kind = if p.msg.contains("already borrowed") || p.msg.contains("BorrowMutError") || p.msg.contains("already mutably borrowed") {
            "reentrant-borrow"
        } else if p.msg.contains("index out of bounds") {
            "index-out-of-bounds"
        } else {
            "other"
        };
        out.push(v(
            "C07",
            format!("panic:{}:{}", p.op, kind),
            format!("vt{}: {} panicked: {}", p.vt, p.op, p.msg),
        ));
    }
    // flush() apart, no tracing call waits for a collector cycle: the collector's work (draining
    // the queues, calling the reporter) never runs on a thread of the host program
    for (vt, t, what) in &h.host_cycles {
        let during_flush = h.flushes.iter().any(|f| f.vt == *vt && f.t0 <= *t && f.t1.map_or(true, |t1| *t <= t1));
        if !during_flush {
            out.push(v(
                "C07",
                "collector-cycle-on-host-thread",
                format!("vt{}: {} ran on the program thread at t={} inside a tracing call other than flush(): the call waits for a whole collector cycle and for the user's reporter", vt, what, t),
            ));
        }
    }
    out
}

/// C16 (enabled part): closures passed to non-recording objects are not invoked; nothing is
/// delivered for non-recording spans
pub fn c16(ix: &Index) -> Vec<Viol> {
    let mut out = Vec::new();
    let h = ix.h;
    for c in &h.closures {
        if !c.recording && c.invoked {
            out.push(v(
                "C16",
                format!("closure-invoked:{}", c.api),
                format!("a property closure passed to {} of a non-recording object was invoked", c.api),
            ));
        }
    }
    // nothing is delivered for non-recording spans: names of noop spans never appear
    for s in &h.spans {
        if s.noop && !s.name.is_empty() && ix.by_name.contains_key(s.name.as_str()) {
            out.push(v("C16", "noop-span-delivered", format!("non-recording span {:?} was delivered", s.name)));
        }
    }
    for c in &h.ctxs {
        if c.exp.is_none() && c.obs.is_some() {
            out.push(v("C16", "context-from-non-recording", "a context was extracted from a non-recording span".to_string()));
        }
    }
    for e in &h.elapsed {
        if (h.spans[e.span].noop || h.spans[e.span].items.is_empty()) && e.obs_ns.is_some() {
            out.push(v("C16", "elapsed-from-non-recording", "elapsed() returned Some for a non-recording span".to_string()));
        }
    }
    out
}

// ---------------------------------------------------------------------------------------------
// C03 / C04 / C08: cancelable mode, cancel, retained state (schedule-level)
// ---------------------------------------------------------------------------------------------

fn src_vt(h: &Hist, s: Src) -> Option<usize> {
    match s {
        Src::Span(i) => h.spans[i].finish_vt,
        Src::Local(l) => Some(h.scopes[h.locals[l].scope].vt),
        Src::Pushed(p, _) => Some(h.pushes[p].vt),
    }
}

/// a collector cycle was in progress across both pushes [a_end .. b_begin] (a happens before b)
fn cycle_spans(h: &Hist, a_end: T, b_begin: T) -> bool {
    h.cycles.iter().any(|c| c.t0 < a_end && c.t1.map_or(true, |t1| t1 > b_begin))
}

/// The collector drains the per-thread queues one after another, so a command pushed before
/// another one (on another thread) can be consumed one cycle later than it. Known finding:
/// such an inconsistent cut can separate a unit's start / a member's submit / the commit.
fn inconsistent_cut_possible(h: &Hist, root: usize, member: Option<(usize, (T, T))>) -> bool {
    let r = &h.spans[root];
    let Some(rf) = r.finish_t else { return false };
    match member {
        None => {
            // commit consumed before start
            r.finish_vt != Some(r.create_vt) && cycle_spans(h, r.create_t.1, rf.0)
        }
        Some((mvt, mfin)) => {
            (mvt != r.create_vt && cycle_spans(h, r.create_t.1, mfin.0))
                || (Some(mvt) != r.finish_vt && cycle_spans(h, mfin.1, rf.0))
                || (r.finish_vt != Some(r.create_vt) && cycle_spans(h, r.create_t.1, rf.0))
        }
    }
}

/// the cancelling thread parked its drop command in the overflow list (ring full) and exited
/// before any collector cycle made room: Sender::drop cannot push into a full ring
fn cancel_lost_at_exit(h: &Hist, root: usize) -> bool {
    let r = &h.spans[root];
    let (Some(c), Some(cv)) = (r.cancel_t.first(), r.cancel_vt.first()) else { return false };
    let parked = h.hooks.iter().any(|e| e.vt == Some(*cv) && e.t > c.0 && e.t < c.1 && matches!(e.kind, HookKind::BeforePush { free: 0, .. }));
    let Some(ex) = h.vts[*cv].exit_t else { return false };
    // no complete cycle between the cancel and the exit
    let drained = h.cycles.iter().any(|cy| cy.t0 > c.1 && cy.t1.map_or(false, |t1| t1 < ex.0));
    parked && !drained
}

/// a full queue was involved on the vthread (C09 territory)
fn fill_involved(h: &Hist) -> bool {
    h.labels.contains_key("fill")
}

pub fn c03(ix: &Index, for_prop: &'static str) -> Vec<Viol> {
    let mut out = Vec::new();
    let h = ix.h;
    if !h.cancelable || names_ambiguous(h) {
        return out;
    }
    for (u, r) in h.spans.iter().enumerate() {
        if !r.is_root || r.noop || !r.items[0].sampled || r.how != "root" {
            continue;
        }
        let trace = r.items[0].trace;
        if ix.root_cancelled(u) {
            continue;
        }
        let Some(rf) = r.finish_t else { continue };
        // batches holding records of this trace
        let mut bset: Vec<usize> = Vec::new();
        for (bi, b) in h.batches.iter().enumerate() {
            if b.records.iter().any(|x| x.trace_id.0 == trace) {
                bset.push(bi);
            }
        }
        let root_rec = ix.by_name.get(r.name.as_str());
        let overflow_exit = fill_involved(h);
        if root_rec.is_none() {
            if overflow_exit {
                continue; // C09 decides what may be missing under overload
            }
            let sig = if inconsistent_cut_possible(h, u, None) {
                "trace-lost:inconsistent-cut"
            } else {
                "root-missing"
            };
            out.push(v(for_prop, sig, format!("trace {:#x}: root {:?} finished at t={:?} without cancel but was never delivered", trace, r.name, rf)));
            continue;
        }
        if bset.len() > 1 {
            out.push(v(
                for_prop,
                "trace-split-across-reports",
                format!("trace {:#x} was delivered in {} different report() calls {:?}", trace, bset.len(), bset),
            ));
        }
        let root_batch = root_rec.unwrap()[0].0;
        for bi in &bset {
            if h.batches[*bi].t < rf.0 {
                out.push(v(
                    for_prop,
                    "delivered-before-root-finished",
                    format!("trace {:#x}: records reported at t={} before the root finished (t={})", trace, h.batches[*bi].t, rf.0),
                ));
            }
            if *bi != root_batch {
                let sig = if *bi > root_batch { "delivered-after-root-batch" } else { "delivered-before-root-batch" };
                out.push(v(for_prop, sig, format!("trace {:#x}: report#{} holds records of the trace but not its root (root in report#{})", trace, bi, root_batch)));
            }
        }
        // must set
        for e in &ix.exps {
            if e.unit != u || e.src == Src::Span(u) || e.fin.1 >= rf.0 {
                continue;
            }
            let got = ix
                .by_name
                .get(e.name.as_str())
                .map(|rs| rs.iter().any(|(bi, x)| x.trace_id.0 == e.trace && *bi == root_batch))
                .unwrap_or(false);
            if !got {
                if overflow_exit {
                    continue;
                }
                let mvt = src_vt(h, e.src).unwrap_or(usize::MAX);
                let sig = if inconsistent_cut_possible(h, u, Some((mvt, e.fin))) {
                    "must-set-missing:inconsistent-cut"
                } else {
                    "must-set-missing"
                };
                out.push(v(
                    for_prop,
                    sig,
                    format!(
                        "trace {:#x}: {:?} finished at t={:?} on vt{} before the root finished (t={:?} on vt{:?}) but is not in the root's report",
                        trace, e.name, e.fin, mvt, rf, r.finish_vt
                    ),
                ));
            }
        }
    }
    out
}

pub fn c04(ix: &Index) -> Vec<Viol> {
    let mut out = Vec::new();
    let h = ix.h;
    if names_ambiguous(h) {
        return out;
    }
    if h.cancelable {
        // (1) a cancelled trace is never delivered
        for (u, r) in h.spans.iter().enumerate() {
            if !r.is_root || r.noop || !r.items[0].sampled || !ix.root_cancelled(u) {
                continue;
            }
            let trace = r.items[0].trace;
            let c0 = r.cancel_t[0].0;
            for (bi, b) in h.batches.iter().enumerate() {
                for x in b.records.iter().filter(|x| x.trace_id.0 == trace) {
                    // drop consumed before start, or commit consumed before drop
                    let cut = r.cancel_t.iter().zip(r.cancel_vt.iter()).any(|(c, cv)| {
                        (*cv != r.create_vt && cycle_spans(h, r.create_t.1, c.0))
                            || r.finish_t.map_or(false, |f| Some(*cv) != r.finish_vt && cycle_spans(h, c.1, f.0))
                    }) || inconsistent_cut_possible(h, u, None);
                    let full_at = |vt: Option<usize>, t: (T, T)| {
                        h.hooks.iter().any(|e| e.vt == vt && e.t > t.0 && e.t < t.1 && matches!(e.kind, HookKind::BeforePush { free: 0, .. }))
                    };
                    let full = full_at(r.cancel_vt.first().copied(), r.cancel_t[0]) || r.finish_t.map_or(false, |f| full_at(r.finish_vt, f));
                    // the cancel was parked in the cancelling thread's overflow list (its ring
                    // was full) and the root was finished by another thread: the commit travels
                    // through a queue with room and overtakes the parked cancel
                    let parked_cancel = full_at(r.cancel_vt.first().copied(), r.cancel_t[0]);
                    let overtaken = parked_cancel && r.finish_vt.is_some() && r.finish_vt != r.cancel_vt.first().copied();
                    let sig = if cancel_lost_at_exit(h, u) {
                        "cancelled-trace-delivered:exit-with-full-queue"
                    } else if overtaken {
                        "cancelled-trace-delivered:parked-cancel-overtaken"
                    } else if cut {
                        "cancelled-trace-delivered:inconsistent-cut"
                    } else if full {
                        "cancelled-trace-delivered:queue-full"
                    } else {
                        "cancelled-trace-delivered"
                    };
                    out.push(v(
                        "C04",
                        sig,
                        format!("trace {:#x} was cancelled at t={} but record {:?} was delivered in report#{} (t={})", trace, c0, x.name, bi, b.t),
                    ));
                }
            }
        }
        // (2) every other trace is unaffected
        out.extend(c03(ix, "C04"));
    } else {
        // (3) cancel() without cancelable(true) changes nothing: exactly-once delivery and
        // attachments as if the call were absent
        out.extend(c01_api(ix).into_iter().map(|mut x| {
            x.prop = "C04";
            x.sig = format!("default-config:{}", x.sig);
            x
        }));
        out.extend(c06(ix).into_iter().filter(|x| x.sig.starts_with("attachment-lost") || x.sig == "attachment-duplicated").map(|mut x| {
            x.prop = "C04";
            x.sig = format!("default-config:{}", x.sig);
            x
        }));
    }
    // cancel on non-root / no-op spans: the model ignores them, so C03/C01 above already
    // demand unchanged delivery
    out
}

/// known-finding shape: a unit whose commit or drop can be consumed before its start
fn start_after_commit_possible(h: &Hist) -> bool {
    h.spans.iter().enumerate().any(|(u, r)| {
        r.is_root
            && !r.noop
            && r.items[0].sampled
            && (inconsistent_cut_possible(h, u, None)
                || (h.cancelable && r.cancel_t.iter().zip(r.cancel_vt.iter()).any(|(c, cv)| *cv != r.create_vt && cycle_spans(h, r.create_t.1, c.0))))
    })
}

pub fn c08(ix: &Index) -> Vec<Viol> {
    let mut out = Vec::new();
    let h = ix.h;
    let leak_shape = start_after_commit_possible(h);
    // a full queue matters only if its thread went on issuing commands while it was full
    let overflow = fill_involved(h)
        && h.hooks.iter().any(|e| {
            matches!(&e.kind, HookKind::Command { kind: "fill-done", .. })
                && h.hooks.iter().any(|l| l.vt == e.vt && l.t > e.t && matches!(&l.kind, HookKind::Command { kind, .. } if *kind != "fill-done"))
        });
    for s in &h.stats {
        if s.final_ {
            if s.s.active_collectors != 0 || s.s.buffered_span_sets != 0 || s.s.danglings != 0 {
                let sig = if leak_shape {
                    "retained-after-quiescence:start-after-commit"
                } else if overflow {
                    "retained-after-quiescence:queue-full"
                } else {
                    "retained-after-quiescence"
                };
                out.push(v(
                    "C08",
                    sig,
                    format!("after every root finished, every thread exited and one more cycle ran the collector still holds {:?}", s.s),
                ));
            }
            if s.s.registered_receivers != 0 {
                out.push(v(
                    "C08",
                    "receivers-after-quiescence",
                    format!("{} receivers are still registered after all threads exited and their queues were drained", s.s.registered_receivers),
                ));
            }
        } else {
            // bound at idle points
            let t = s.t;
            let done_before = |end: T| h.cycles.iter().any(|c| c.t0 > end && c.t1.map_or(false, |t1| t1 <= t));
            let live_units = h
                .spans
                .iter()
                .filter(|r| r.is_root && !r.noop && r.items[0].sampled && r.create_t.0 < t)
                .filter(|r| {
                    let fin = r.finish_t.map(|f| f.1);
                    let canc = if h.cancelable { r.cancel_t.first().map(|c| c.1) } else { None };
                    let end = match (fin, canc) {
                        (Some(a), Some(b)) => Some(a.min(b)),
                        (a, b) => a.or(b),
                    };
                    !end.map_or(false, done_before)
                })
                .count();
            if s.s.active_collectors > live_units && !overflow {
                out.push(v(
                    "C08",
                    if leak_shape { "active-collectors-exceed-live-traces:start-after-commit" } else { "active-collectors-exceed-live-traces" },
                    format!("t={}: {} active collectors but only {} traces are in flight", t, s.s.active_collectors, live_units),
                ));
            }
            // parked attachments: at most one entry per attachment call and per trace of its
            // target, and only for traces still in flight (what was parked for a finished trace
            // goes with it)
            let live_set: HashSet<usize> = h
                .spans
                .iter()
                .enumerate()
                .filter(|(_, r)| r.is_root && !r.noop && r.items[0].sampled && r.create_t.0 < t)
                .filter(|(_, r)| {
                    let fin = r.finish_t.map(|f| f.1);
                    let canc = if h.cancelable { r.cancel_t.first().map(|c| c.1) } else { None };
                    let end = match (fin, canc) {
                        (Some(a), Some(b)) => Some(a.min(b)),
                        (a, b) => a.or(b),
                    };
                    !end.map_or(false, done_before)
                })
                .map(|(i, _)| i)
                .collect();
            let mut bound = 0usize;
            for a in h.atts.iter().filter(|a| a.route != Route::Creation && a.t.0 < t) {
                let units: Vec<usize> = match a.target {
                    ARef::Span(sp) => h.spans[sp].items.iter().filter(|i| i.sampled).map(|i| i.unit).collect(),
                    ARef::Local(l) => match &h.scopes[h.locals[l].scope].kind {
                        ScopeKind::Parent { items, .. } => items.iter().filter(|i| i.sampled).map(|i| i.unit).collect(),
                        ScopeKind::Collector => h.pushes.iter().filter(|p| h.sets[p.set].scope == h.locals[l].scope).flat_map(|p| h.spans[p.span].items.iter().filter(|i| i.sampled).map(|i| i.unit)).collect(),
                    },
                    ARef::ScopeRoot(sc) => match &h.scopes[sc].kind {
                        ScopeKind::Parent { items, .. } => items.iter().filter(|i| i.sampled).map(|i| i.unit).collect(),
                        ScopeKind::Collector => h.pushes.iter().filter(|p| h.sets[p.set].scope == sc).flat_map(|p| h.spans[p.span].items.iter().filter(|i| i.sampled).map(|i| i.unit)).collect(),
                    },
                };
                bound += units.iter().filter(|u| live_set.contains(u)).count();
            }
            // backlog operations attach events to a span of their own filler trace
            bound += h.bulk_atts.iter().filter(|(u, _, bt)| *bt < t && live_set.contains(u)).map(|(_, n, _)| *n).sum::<usize>();
            if s.s.danglings > bound && !overflow && !leak_shape {
                out.push(v(
                    "C08",
                    "parked-attachments-exceed-live-traces",
                    format!("t={}: the collector holds {} parked events/properties, but the traces in flight received at most {} that could be waiting for their span", t, s.s.danglings, bound),
                ));
            }
            let live_vts = h
                .vts
                .iter()
                .filter(|vt| vt.born_t.map_or(false, |b| b < t))
                .filter(|vt| !vt.exit_t.map_or(false, |e| done_before(e.1)))
                .count();
            if s.s.registered_receivers > live_vts {
                out.push(v(
                    "C08",
                    "receivers-exceed-live-threads",
                    format!("t={}: {} receivers registered but only {} threads are live or undrained", t, s.s.registered_receivers, live_vts),
                ));
            }
        }
    }
    out
}

// ---------------------------------------------------------------------------------------------
// C09: overload degrades by omission only
// ---------------------------------------------------------------------------------------------

/// outcome of the first `submit` command issued by `vt` inside the operation interval
fn submit_outcome(h: &Hist, vt: usize, t: (T, T)) -> Option<(bool, T)> {
    let mut it = h.hooks.iter().filter(|e| e.vt == Some(vt) && e.t > t.0 && e.t < t.1);
    while let Some(e) = it.next() {
        if let HookKind::Command { kind: "submit", .. } = e.kind {
            for e2 in it.by_ref() {
                match e2.kind {
                    HookKind::PushOutcome { ok } => return Some((ok, e2.t)),
                    HookKind::Command { .. } => return None,
                    _ => {}
                }
            }
            return None;
        }
    }
    None
}

fn start_outcome(h: &Hist, root: usize) -> Option<(bool, T)> {
    let r = &h.spans[root];
    let mut it = h.hooks.iter().filter(|e| e.vt == Some(r.create_vt) && e.t > r.create_t.0 && e.t < r.create_t.1);
    while let Some(e) = it.next() {
        if let HookKind::Command { kind: "start", .. } = e.kind {
            for e2 in it.by_ref() {
                if let HookKind::PushOutcome { ok } = e2.kind {
                    return Some((ok, e2.t));
                }
            }
        }
    }
    None
}

/// the vthread exited while commands were still parked in its overflow list
fn exited_with_parked(h: &Hist, vt: usize) -> bool {
    let Some(ex) = h.vts[vt].exit_t else { return false };
    // last BeforePush of the vthread tells how many commands were parked
    let last = h.hooks.iter().rev().find(|e| e.vt == Some(vt) && e.t < ex.0 && matches!(e.kind, HookKind::BeforePush { .. }));
    match last.map(|e| &e.kind) {
        Some(HookKind::BeforePush { free, pending, .. }) => *free == 0 || *pending > 0,
        _ => false,
    }
}

/// Overload windows per vthread: from the end of a ring-fill episode until the end of the first
/// complete collector cycle that starts after it.
fn overload_windows(h: &Hist) -> HashMap<usize, Vec<(T, T)>> {
    let mut windows: HashMap<usize, Vec<(T, T)>> = HashMap::new();
    for e in &h.hooks {
        if let (HookKind::Command { kind: "fill-done", .. }, Some(vt)) = (&e.kind, e.vt) {
            let end = h.cycles.iter().find(|c| c.t0 > e.t && c.t1.is_some()).and_then(|c| c.t1).unwrap_or(T::MAX);
            windows.entry(vt).or_default().push((e.t, end));
        }
    }
    windows
}

/// "Omission only, and only what was submitted while the queue was full": commands dropped
/// outside an overload window, and per record demanded <= delivered <= recorded. Returns the
/// violations and the sets of roots whose start was dropped / whose finish signal was lost with
/// an exiting thread (for the callers' further bookkeeping).
pub fn omissions_only_permitted(ix: &Index, prop: &'static str) -> (Vec<Viol>, HashSet<usize>, HashSet<usize>) {
    let mut out = Vec::new();
    let h = ix.h;
    let windows = overload_windows(h);
    let in_window = |vt: usize, t: T| windows.get(&vt).map_or(false, |ws| ws.iter().any(|(a, b)| t >= *a && t <= *b));
    for e in &h.hooks {
        if let (HookKind::PushOutcome { ok: false }, Some(vt)) = (&e.kind, e.vt) {
            if !in_window(vt, e.t) {
                out.push(v(
                    prop,
                    "dropped-while-queue-not-full",
                    format!("vt{}: a command was dropped at t={} although the thread's queue cannot be full (no fill episode since the last complete collector cycle)", vt, e.t),
                ));
            }
        }
    }
    // a send that fails although the ring has room
    for w in h.hooks.windows(2) {
        if let (HookKind::BeforePush { free, pending, .. }, HookKind::PushOutcome { ok: false }) = (&w[0].kind, &w[1].kind) {
            if *free > 0 && *pending == 0 && w[0].vt == w[1].vt {
                out.push(v(prop, "dropped-with-free-slots", format!("a command was dropped although {} slots were free", free)));
            }
        }
    }
    // (3) missing is a subset of permitted
    let mut unit_unstarted: HashSet<usize> = HashSet::new();
    let mut unit_commit_lost: HashSet<usize> = HashSet::new();
    for (u, r) in h.spans.iter().enumerate() {
        if !r.is_root || r.noop || !r.items[0].sampled {
            continue;
        }
        if let Some((false, t)) = start_outcome(h, u) {
            if in_window(r.create_vt, t) {
                unit_unstarted.insert(u);
            }
        }
        if let (Some(fvt), Some(_)) = (r.finish_vt, r.finish_t) {
            if exited_with_parked(h, fvt) {
                unit_commit_lost.insert(u);
            }
        }
        for cv in &r.cancel_vt {
            if exited_with_parked(h, *cv) {
                unit_commit_lost.insert(u);
            }
        }
    }
    let exempt = |e: &Exp| -> bool {
        let vt = src_vt(h, e.src).unwrap_or(usize::MAX);
        if vt == usize::MAX {
            return true;
        }
        match submit_outcome(h, vt, e.fin) {
            // a dropped submit is a permitted omission only inside an overload window
            Some((false, t)) => in_window(vt, t),
            Some((true, _)) => false,
            // no push outcome observed for the submit: only acceptable inside an overload window
            None => in_window(vt, e.fin.0) || in_window(vt, e.fin.1),
        }
    };
    // per (name, trace): demanded <= delivered <= possible
    let mut demand: BTreeMap<(&str, u128), (usize, usize)> = BTreeMap::new();
    for e in &ix.exps {
        let ent = demand.entry((e.name.as_str(), e.trace)).or_insert((0, 0));
        ent.1 += 1;
        let root = &h.spans[e.unit];
        let mut must = !exempt(e);
        if h.cancelable {
            let cancelled = ix.root_cancelled(e.unit);
            let before_root = e.src == Src::Span(e.unit) || root.finish_t.map_or(false, |rf| e.fin.1 < rf.0);
            let mvt = src_vt(h, e.src).unwrap_or(usize::MAX);
            if cancelled
                || !before_root
                || unit_unstarted.contains(&e.unit)
                || unit_commit_lost.contains(&e.unit)
                || inconsistent_cut_possible(h, e.unit, Some((mvt, e.fin)))
            {
                must = false;
            }
        }
        if must {
            ent.0 += 1;
        }
    }
    for ((name, trace), (must, possible)) in &demand {
        let got = ix.by_name.get(name).map(|rs| rs.iter().filter(|r| r.1.trace_id.0 == *trace).count()).unwrap_or(0);
        if got < *must {
            out.push(v(
                prop,
                "missing-not-permitted",
                format!("record {:?} of trace {:#x}: {} copies were submitted successfully (queue not full) but only {} delivered", name, trace, must, got),
            ));
        }
        if got > *possible {
            out.push(v(prop, "delivered-more-than-recorded", format!("record {:?} of trace {:#x} delivered {} times, recorded {}", name, trace, got, possible)));
        }
    }
    for (name, recs) in &ix.by_name {
        if !ix.exp_by_name.contains_key(*name) && !name.starts_with("fill-") && *name != "f" {
            out.push(v(prop, "delivered-unknown", format!("record {:?} ({} copies) corresponds to nothing the program recorded", name, recs.len())));
        }
    }
    (out, unit_unstarted, unit_commit_lost)
}

pub fn c09(ix: &Index) -> Vec<Viol> {
    let mut out = Vec::new();
    let h = ix.h;
    // (1) every call returns
    for p in &h.panics {
        out.push(v("C09", format!("panic:{}", p.op), format!("vt{}: {} panicked during an overload episode: {}", p.vt, p.op, p.msg)));
    }
    if names_ambiguous(h) {
        return out;
    }
    let windows = overload_windows(h);
    let _ = &windows;
    let (o3, unit_unstarted, unit_commit_lost) = omissions_only_permitted(ix, "C09");
    out.extend(o3);
    // (2) every delivered record is correct
    out.extend(c02(ix, false).into_iter().map(|mut x| {
        x.prop = "C09";
        x.sig = format!("delivered-incorrect:{}", x.sig);
        x
    }));
    out.extend(
        c06(ix)
            .into_iter()
            .filter(|x| x.sig == "attached-to-wrong-record" || x.sig == "attachment-duplicated" || x.sig == "value-changed" || x.sig == "unknown-property" || x.sig == "unknown-event")
            .map(|mut x| {
                x.prop = "C09";
                x.sig = format!("delivered-incorrect:{}", x.sig);
                x
            }),
    );
    // (4) finish / cancel signals are neither dropped nor reordered while the thread lives
    let mut issued: HashMap<usize, Vec<(&'static str, usize)>> = HashMap::new();
    for e in &h.hooks {
        if let (HookKind::Command { kind, ids, force: true }, Some(vt)) = (&e.kind, e.vt) {
            if ids[0] != usize::MAX {
                issued.entry(vt).or_default().push((kind, ids[0]));
            }
        }
    }
    // (4') the library-side log above starts where the command is handed to the queue layer; the
    // model knows which calls must hand one over: finishing a sampled, recording root issues its
    // commit, cancel() on it issues its cancel, on the calling thread, whatever its queue's state
    for s in h.spans.iter() {
        let Some(cid) = s.cid else { continue };
        let mut want: Vec<(&'static str, usize, (T, T), &'static str)> = vec![];
        if let (Some(ft), Some(fvt)) = (s.finish_t, s.finish_vt) {
            want.push(("commit", fvt, ft, "finishing"));
        }
        for (ct, cvt) in s.cancel_t.iter().zip(s.cancel_vt.iter()) {
            want.push(("drop", *cvt, *ct, "cancel() on"));
        }
        for (kind, vt, (t0, t1), what) in want {
            if !issued.contains_key(&vt) && !h.hooks.iter().any(|e| e.vt == Some(vt)) {
                continue; // a thread whose calls are not logged (final clean-up)
            }
            let seen = h.hooks.iter().any(|e| {
                e.vt == Some(vt) && e.t >= t0 && e.t <= t1 && matches!(&e.kind, HookKind::Command { kind: k, ids, force: true } if *k == kind && ids.first() == Some(&cid))
            });
            if !seen {
                out.push(v(
                    "C09",
                    "signal-not-issued",
                    format!("vt{}: {} root {:?} (collect id {}) at t=({}, {}) handed no {} signal to the thread's command queue", vt, what, s.name, cid, t0, t1, if kind == "commit" { "finish" } else { "cancel" }),
                ));
            }
        }
    }
    // ring of every vthread, learned from its own pushes
    // (a ring is identified by the address of its buffer; the allocator may hand the address of
    // a removed ring to the ring of a thread born later, so an address stands for one thread only
    // from that thread's first push until the first push of the next thread that got it)
    let mut ring_of: HashMap<usize, (usize, T)> = HashMap::new();
    for e in &h.hooks {
        if let (HookKind::BeforePush { ring, .. }, Some(vt)) = (&e.kind, e.vt) {
            ring_of.entry(vt).or_insert((*ring, e.t));
        }
    }
    for (vt, seq) in &issued {
        let Some((ring, first)) = ring_of.get(vt) else { continue };
        let until = ring_of.iter().filter(|(v2, (r2, t2))| *v2 != vt && r2 == ring && t2 > first).map(|(_, (_, t2))| *t2).min().unwrap_or(T::MAX);
        let received: Vec<(&'static str, usize)> = h
            .hooks
            .iter()
            .filter(|e| e.t >= *first && e.t < until)
            .filter_map(|e| match &e.kind {
                HookKind::Received { kind, ids, ring: r } if r == ring && (*kind == "commit" || *kind == "drop") && ids[0] != usize::MAX => Some((*kind, ids[0])),
                _ => None,
            })
            .collect();
        let lost_ok = exited_with_parked(h, *vt);
        // what arrived must be a prefix-preserving copy of what was issued: equal, or (when the
        // thread exited with parked commands) a prefix of it
        let n = received.len().min(seq.len());
        if received[..n] != seq[..n] || received.len() > seq.len() {
            out.push(v(
                "C09",
                "signal-reordered",
                {
                    let d = (0..n).find(|i| received[*i] != seq[*i]).unwrap_or(n);
                    let lo = d.saturating_sub(2);
                    format!(
                        "vt{}: {} finish/cancel signals were issued and {} reached the collector; they differ first at position {}: issued ..{:?}.. but arrived ..{:?}..",
                        vt,
                        seq.len(),
                        received.len(),
                        d,
                        &seq[lo..(d + 3).min(seq.len())],
                        &received[lo..(d + 3).min(received.len())]
                    )
                },
            ));
        } else if received.len() < seq.len() && !lost_ok {
            out.push(v(
                "C09",
                "signal-lost",
                format!(
                    "vt{}: {} finish/cancel signals were issued but only the first {} reached the collector (first missing: {:?}) although the thread did not exit with a full queue",
                    vt,
                    seq.len(),
                    received.len(),
                    seq[received.len()]
                ),
            ));
        }
    }
    // cancel-then-finish never delivers
    if h.cancelable {
        // (a cancel parked in the overflow list of a thread that then exits is outside "while the
        // thread lives"; that loss is C04's known finding)
        for x in c04(ix)
            .into_iter()
            .filter(|x| x.sig.starts_with("cancelled-trace-delivered") && !x.sig.ends_with("exit-with-full-queue") && !x.sig.ends_with("parked-cancel-overtaken") && !x.sig.ends_with("inconsistent-cut"))
        {
            let mut x = x;
            x.prop = "C09";
            out.push(x);
        }
    }
    // retained state returns to zero unless a finish/cancel signal was legitimately lost
    if unit_commit_lost.is_empty() {
        for s in h.stats.iter().filter(|s| s.final_) {
            let leak_shape = start_after_commit_possible(h);
            if (s.s.active_collectors != 0 || s.s.buffered_span_sets != 0) && !leak_shape && unit_unstarted.is_empty() {
                out.push(v("C09", "state-retained-after-recovery", format!("after recovery and quiescence the collector still holds {:?}", s.s)));
            }
        }
    }
    out
}

// ---------------------------------------------------------------------------------------------
// C13 / C14: adapters
// ---------------------------------------------------------------------------------------------
pub fn c13(ix: &Index, prop: &'static str, sched: bool) -> Vec<Viol> {
    use crate::prog::{AdapterKind, Entry, PollEnd};
    let mut out = Vec::new();
    let h = ix.h;
    // local context restored after every call: the frame condition over the probes
    out.extend(c10(ix).into_iter().map(|mut x| {
        x.prop = prop;
        x.sig = format!("context:{}", x.sig);
        x
    }));
    // local parent during every call (contexts observed inside the calls)
    out.extend(c11(ix).into_iter().filter(|x| x.sig.starts_with("current_local_parent")).map(|mut x| {
        x.prop = prop;
        x.sig = format!("inside-call:{}", x.sig);
        x
    }));
    for p in &h.panics {
        out.push(v(prop, format!("panic:{}", p.op), format!("{} panicked: {}", p.op, p.msg)));
    }
    // "has that span as local parent during every poll": events and properties recorded through
    // the local parent during a poll land on the delivered record of the span they were attached
    // to, wherever collector cycles fall between the polls. (Operation-granularity engine only:
    // there every cycle sees a consistent cut of the queues.)
    if !sched {
        let during_poll = |a: &MAtt| a.route == Route::Local && a.scope.map_or(false, |sc| h.scopes[sc].by_adapter.is_some());
        out.extend(c06_only(ix, &during_poll).into_iter().map(|mut x| {
            x.prop = prop;
            x.sig = format!("recorded-during-poll:{}", x.sig);
            x
        }));
    }
    for (ai, a) in h.adapters.iter().enumerate() {
        let want_kinds: &[AdapterKind] = if prop == "C13" {
            &[AdapterKind::InSpan, AdapterKind::EnterOnPoll, AdapterKind::InSpanEnterOnPoll, AdapterKind::TracedBoxed]
        } else {
            &[AdapterKind::Stream, AdapterKind::Sink, AdapterKind::DuplexViaStream, AdapterKind::DuplexViaSink, AdapterKind::StreamTwice, AdapterKind::SinkTwice]
        };
        if !want_kinds.contains(&a.kind) {
            continue;
        }
        let in_span = a.kind != AdapterKind::EnterOnPoll;
        // inside each call the span is the local parent
        if let (true, Some(si)) = (in_span, a.span) {
            let sp = &h.spans[si];
            let mut done = false;
            for (pi, pl) in a.polls.iter().enumerate() {
                if pl.inside_panicked {
                    continue;
                }
                let first = pl.inside_clp.first().cloned().flatten();
                if !sp.noop && !done {
                    // innermost: the eop local if there is one, else the span
                    match first {
                        None => out.push(v(
                            prop,
                            format!("no-local-parent-inside:{:?}", pl.entry),
                            format!("adapter#{} call#{} ({:?}): no local parent inside the call although the adapter holds span {:?}", ai, pi, pl.entry, sp.name),
                        )),
                        Some((t, id, smp)) => {
                            if t != sp.items[0].trace || smp != sp.items[0].sampled {
                                out.push(v(prop, format!("wrong-local-parent-inside:{:?}", pl.entry), format!("adapter#{} call#{}: local parent inside the call is trace {:#x} sampled={}, expected the span's", ai, pi, t, smp)));
                            }
                            if pl.eop_local.is_none() {
                                if let Some(rs) = ix.by_name.get(sp.name.as_str()) {
                                    if rs[0].1.span_id.0 != id {
                                        out.push(v(prop, format!("wrong-local-parent-inside:{:?}", pl.entry), format!("adapter#{} call#{}: local parent inside the call has span id {:#x}, the wrapped span's record has {:#x}", ai, pi, id, rs[0].1.span_id.0)));
                                    }
                                }
                            }
                        }
                    }
                }
                if pl.finishing || pl.close_err {
                    done = true;
                }
            }
            // the span finishes exactly at the finishing call / at the drop
            if !sp.noop && sp.items.iter().any(|i| i.sampled) {
                let uncertain = a.polls.iter().any(|p| p.close_err);
                if let (Some(fin), Some(rs)) = (sp.finish_t, ix.by_name.get(sp.name.as_str())) {
                    for (bi, r) in rs {
                        let b = &h.batches[*bi];
                        // not earlier: a cycle that completed before the finishing call began
                        // (for close->Err: before that call began) must not deliver it
                        let earliest = if uncertain { a.polls.iter().find(|p| p.close_err).map(|p| p.t.0).unwrap_or(fin.0) } else { fin.0 };
                        if b.t < earliest {
                            out.push(v(
                                prop,
                                "span-finished-early",
                                format!("adapter#{}: span {:?} was delivered at t={} before the completing call / drop began (t={})", ai, sp.name, b.t, earliest),
                            ));
                        }
                        // not later (default config; cancelable is bound to the root's finish)
                        if !h.cancelable && !sched {
                            if let Some((_, dl)) = ix.first_cycle_after(fin.1) {
                                if b.t > dl {
                                    out.push(v(prop, "span-finished-late", format!("adapter#{}: span {:?} finished at t={:?} but was delivered only at t={}", ai, sp.name, fin, b.t)));
                                }
                            }
                        }
                        // duration ends inside the bracket of the finishing call / drop
                        if sp.br.f1 != 0 && sp.br.c1 != 0 && !uncertain {
                            let lo = sp.br.f0.saturating_sub(sp.br.c1);
                            let hi = sp.br.f1.saturating_sub(sp.br.c0);
                            if r.duration_ns + 5 < lo || r.duration_ns > hi + 5 {
                                out.push(v(prop, "span-end-outside-final-call", format!("adapter#{}: span {:?} duration {} ns, bracket of the completing call [{}, {}]", ai, sp.name, r.duration_ns, lo, hi)));
                            }
                        }
                    }
                    // pending polls must not finish it: every poll that returned Pending before
                    // the finishing one has t.1 <= fin.0 by construction (checked via 'early')
                    // exactly once (default config)
                    if !h.cancelable {
                        let want = sp.items.iter().filter(|i| i.sampled).count();
                        if rs.len() != want {
                            out.push(v(prop, "span-copies", format!("adapter#{}: span {:?} delivered {} times, expected {}", ai, sp.name, rs.len(), want)));
                        }
                    }
                } else if sp.finish_t.is_some() && (!h.cancelable || (!sched && sp.is_root && sp.cancel_t.is_empty() && sp.items.iter().any(|i| i.sampled) && !h.limit_hit)) {
                    // (cancelable: a root that the program never cancelled is delivered once it
                    // finished, whether the adapter completed or was dropped in whatever state)
                    out.push(v(prop, "span-never-delivered", format!("adapter#{}: span {:?} finished at {:?} but was never delivered", ai, sp.name, sp.finish_t)));
                }
            }
            // dropped before completion: the span covers the inner object until that object is
            // gone, so a span the inner object held (and finished in its destructor) ends no
            // later than the adapter's span (decidable when both records were converted in one
            // cycle, i.e. with one clock anchor)
            if a.done_t.is_none() && a.dropped_t.is_some() && !sp.noop {
                if let Some(rs) = ix.by_name.get(sp.name.as_str()) {
                    for ci in &a.held_finished {
                        let Some(crs) = ix.by_name.get(h.spans[*ci].name.as_str()) else { continue };
                        for (bi, r) in rs {
                            for (cbi, c) in crs.iter().filter(|(cbi, c)| cbi == bi && c.trace_id == r.trace_id) {
                                let _ = cbi;
                                let root_end = r.begin_time_unix_ns + r.duration_ns;
                                let child_end = c.begin_time_unix_ns + c.duration_ns;
                                if child_end > root_end + 5 {
                                    out.push(v(
                                        prop,
                                        "span-ended-before-inner-dropped",
                                        format!(
                                            "adapter#{} dropped before completion: span {:?} ended {} ns before span {:?}, which the inner object held and finished in its destructor",
                                            ai,
                                            sp.name,
                                            child_end - root_end,
                                            c.name
                                        ),
                                    ));
                                }
                            }
                        }
                    }
                }
            }
            // everything recorded during the final call belongs to the delivered trace
            if let Some(fp) = a.polls.iter().find(|p| p.finishing) {
                if let (Some(sc), false) = (fp.scope, sp.noop) {
                    let span_delivered = ix.by_name.get(sp.name.as_str());
                    if let Some(srecs) = span_delivered {
                        for e in ix.exps.iter().filter(|e| matches!(e.src, Src::Local(l) if h.locals[l].scope == sc)) {
                            // the copy of the span in this trace
                            let Some((sbi, _)) = srecs.iter().find(|(_, r)| r.trace_id.0 == e.trace) else { continue };
                            let got = ix.by_name.get(e.name.as_str()).map(|rs| rs.iter().filter(|(_, r)| r.trace_id.0 == e.trace).map(|(bi, _)| *bi).collect::<Vec<_>>()).unwrap_or_default();
                            let is_unit_root = sp.is_root;
                            if got.is_empty() {
                                // the final call's span set travels through the polling thread's
                                // queue, the trace's start (and commit) possibly through others:
                                // the known inconsistent-cut family (sched engine only)
                                let cut = sched && inconsistent_cut_possible(h, e.unit, Some((fp.vt, fp.t)));
                                let sig = match (is_unit_root, cut) {
                                    (true, false) => "final-call-lost:root",
                                    (false, false) => "final-call-lost",
                                    (true, true) => "final-call-lost:root:inconsistent-cut",
                                    (false, true) => "final-call-lost:inconsistent-cut",
                                };
                                if !h.cancelable || is_unit_root || h.spans[e.unit].finish_t.map_or(false, |rf| rf.0 > fp.t.1) {
                                    out.push(v(
                                        prop,
                                        sig,
                                        format!("adapter#{}: local span {:?} recorded during the completing call is missing from trace {:#x} although the span itself was delivered", ai, e.name, e.trace),
                                    ));
                                }
                            } else if h.cancelable && is_unit_root && !got.contains(sbi) {
                                out.push(v(prop, "final-call-other-batch", format!("adapter#{}: local span {:?} of the completing call was delivered in another report than the root", ai, e.name)));
                            }
                        }
                    }
                }
            }
        }
        // enter_on_poll: one local span per poll under a sampled local context
        if matches!(a.kind, AdapterKind::EnterOnPoll | AdapterKind::InSpanEnterOnPoll) {
            let mut want_parents: Vec<(u128, Option<u64>)> = Vec::new();
            let mut npolls_recording = 0;
            for pl in &a.polls {
                if let Some(li) = pl.eop_local {
                    npolls_recording += 1;
                    for e in ix.exps.iter().filter(|e| e.src == Src::Local(li)) {
                        want_parents.push((e.trace, ix.id_of(e.parent)));
                    }
                }
            }
            let got = ix.by_name.get(a.name.as_str()).map(|v| v.len()).unwrap_or(0);
            let exp_n = ix.exp_by_name.get(a.name.as_str()).map(|v| v.len()).unwrap_or(0);
            if !h.cancelable && !sched && got != exp_n {
                out.push(v(
                    prop,
                    "enter_on_poll-count",
                    format!("adapter#{} enter_on_poll({:?}): {} polls under a sampled local parent should give {} records, delivered {}", ai, a.name, npolls_recording, exp_n, got),
                ));
            }
            if got > exp_n {
                out.push(v(prop, "enter_on_poll-extra", format!("adapter#{} enter_on_poll({:?}): delivered {} records for {} recording polls", ai, a.name, got, exp_n)));
            }
            if let Some(rs) = ix.by_name.get(a.name.as_str()) {
                let mut pool = want_parents.clone();
                // exact matches first, then expectations whose parent id is unknown to the harness
                let mut rest = vec![];
                for (_, r) in rs {
                    if let Some(pos) = pool.iter().position(|(t, p)| *t == r.trace_id.0 && *p == Some(r.parent_id.0)) {
                        pool.remove(pos);
                    } else {
                        rest.push(r);
                    }
                }
                for r in rest {
                    if let Some(pos) = pool.iter().position(|(t, p)| *t == r.trace_id.0 && p.is_none()) {
                        pool.remove(pos);
                    } else {
                        out.push(v(
                            prop,
                            "enter_on_poll-parent",
                            format!("adapter#{} enter_on_poll({:?}): record in trace {:#x} under parent {:#x} is not under the local parent in effect at any poll", ai, a.name, r.trace_id.0, r.parent_id.0),
                        ));
                    }
                }
                // interval covers the poll: duration within [inner call, adapter call] of some poll
                for (_, r) in rs {
                    let ok = a.polls.iter().filter(|p| p.eop_local.is_some()).any(|p| r.duration_ns + 5 >= p.i1.saturating_sub(p.i0) && r.duration_ns <= p.b1.saturating_sub(p.b0) + 5);
                    if !ok && a.polls.iter().all(|p| p.b1 != 0) {
                        out.push(v(prop, "enter_on_poll-interval", format!("adapter#{} enter_on_poll({:?}): a record's duration {} ns covers no poll", ai, a.name, r.duration_ns)));
                    }
                }
            }
        }
        let _ = (Entry::Poll, PollEnd::Pending);
    }
    // exactly-once / nothing invented for everything else in the default configuration
    if !h.cancelable && !sched {
        out.extend(c01_api(ix).into_iter().map(|mut x| {
            x.prop = prop;
            x.sig = format!("delivery:{}", x.sig);
            x
        }));
    }
    out.extend(c02(ix, false).into_iter().map(|mut x| {
        x.prop = prop;
        x.sig = format!("tree:{}", x.sig);
        x
    }));
    out
}

//! Baton scheduler: every virtual thread (vthread) is a real OS thread, but exactly one of them
//! (or the scheduler) runs at any time. Hand-over goes through one mutex + condvar, which also
//! gives a real happens-before edge for every hand-over.

use std::sync::{Condvar, Mutex};

#[derive(Clone, Debug, PartialEq)]
pub enum Yield {
    /// An operation finished (operation boundary).
    OpDone,
    /// A hook site inside the library (sched engine only).
    Site(&'static str),
    /// The vthread waits until a collector cycle that starts after this request has completed.
    WaitFlush,
    /// The vthread's body is done; it will not take the baton again and must be joined.
    Exiting,
}

struct St {
    /// Some(id): vthread `id` holds the baton. None: the scheduler holds it.
    current: Option<usize>,
    last: Yield,
}

pub struct Baton {
    m: Mutex<St>,
    cv: Condvar,
}

impl Default for Baton {
    fn default() -> Self {
        Self::new()
    }
}

impl Baton {
    pub fn new() -> Self {
        Baton {
            m: Mutex::new(St {
                current: None,
                last: Yield::OpDone,
            }),
            cv: Condvar::new(),
        }
    }

    /// vthread side: block until the scheduler hands the baton to `id`.
    pub fn wait_turn(&self, id: usize) {
        let mut g = self.m.lock().unwrap();
        while g.current != Some(id) {
            g = self.cv.wait(g).unwrap();
        }
    }

    /// vthread side: give the baton back and wait to be resumed.
    pub fn yield_now(&self, id: usize, why: Yield) {
        let mut g = self.m.lock().unwrap();
        debug_assert_eq!(g.current, Some(id));
        g.current = None;
        g.last = why;
        self.cv.notify_all();
        while g.current != Some(id) {
            g = self.cv.wait(g).unwrap();
        }
    }

    /// vthread side: give the baton back for good (thread is about to exit).
    pub fn exit(&self, id: usize) {
        let mut g = self.m.lock().unwrap();
        debug_assert_eq!(g.current, Some(id));
        g.current = None;
        g.last = Yield::Exiting;
        self.cv.notify_all();
    }

    /// scheduler side: let `id` run until its next yield point; returns why it yielded.
    pub fn run(&self, id: usize) -> Yield {
        let mut g = self.m.lock().unwrap();
        debug_assert!(g.current.is_none());
        g.current = Some(id);
        self.cv.notify_all();
        while g.current.is_some() {
            g = self.cv.wait(g).unwrap();
        }
        g.last.clone()
    }
}

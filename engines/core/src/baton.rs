//! Baton scheduler: every virtual thread (vthread) is a real OS thread, but exactly one of them
//! (or the scheduler) runs at any time. Hand-over goes through one mutex + condvar, which also
//! gives a real happens-before edge for every hand-over.

use std::sync::{Condvar, Mutex};

#[derive(Clone, Debug, PartialEq)]
pub enum Yield {
    /// An operation finished (operation boundary).
    OpDone,
    /// A hook site inside the library (sched engine only).
    Site(&'static str),
    /// The vthread waits until a collector cycle that starts after this request has completed.
    WaitFlush,
    /// The vthread is about to register its command queue but the registry's lock is held by the
    /// collector cycle in progress: it cannot continue before that cycle's drain has ended.
    BlockedOnRegistry,
    /// The vthread's body is done; it will not take the baton again and must be joined.
    Exiting,
}

struct St {
    /// Some(id): vthread `id` holds the baton. None: the scheduler holds it.
    current: Option<usize>,
    last: Yield,
    /// vthreads that gave the baton back without waiting for it (they are blocked on a lock of
    /// the library); they take their turn again at their next yield point
    detached: Vec<usize>,
    /// detached vthreads that have reached their next yield point and wait for their turn
    parked: Vec<usize>,
}

pub struct Baton {
    m: Mutex<St>,
    cv: Condvar,
}

impl Default for Baton {
    fn default() -> Self {
        Self::new()
    }
}

impl Baton {
    pub fn new() -> Self {
        Baton {
            m: Mutex::new(St {
                current: None,
                last: Yield::OpDone,
                detached: Vec::new(),
                parked: Vec::new(),
            }),
            cv: Condvar::new(),
        }
    }

    /// vthread side: block until the scheduler hands the baton to `id`.
    pub fn wait_turn(&self, id: usize) {
        let mut g = self.m.lock().unwrap();
        while g.current != Some(id) {
            g = self.cv.wait(g).unwrap();
        }
    }

    /// vthread side: give the baton back but keep running: the caller is about to block on a lock
    /// that the baton holder owns (the library's receiver registry). Nothing of the harness may
    /// be touched until `reattach`.
    pub fn detach(&self, id: usize, why: Yield) {
        let mut g = self.m.lock().unwrap();
        debug_assert_eq!(g.current, Some(id));
        g.current = None;
        g.last = why;
        g.detached.push(id);
        self.cv.notify_all();
    }

    /// vthread side: a detached vthread waits for its turn again (no-op otherwise).
    pub fn reattach(&self, id: usize) {
        let mut g = self.m.lock().unwrap();
        if g.detached.contains(&id) {
            g.parked.push(id);
            self.cv.notify_all();
            while g.current != Some(id) {
                g = self.cv.wait(g).unwrap();
            }
            g.detached.retain(|x| *x != id);
            g.parked.retain(|x| *x != id);
        }
    }

    /// scheduler side: wait until every detached vthread has got through the lock it was blocked
    /// on and is parked at its next yield point (called when that lock has been released for
    /// good, so that nothing of the library runs concurrently with the next baton holder).
    pub fn wait_detached_parked(&self) {
        let mut g = self.m.lock().unwrap();
        while !g.detached.iter().all(|d| g.parked.contains(d)) {
            g = self.cv.wait(g).unwrap();
        }
    }

    /// vthread side: give the baton back and wait to be resumed.
    pub fn yield_now(&self, id: usize, why: Yield) {
        self.reattach(id);
        let mut g = self.m.lock().unwrap();
        debug_assert_eq!(g.current, Some(id));
        g.current = None;
        g.last = why;
        self.cv.notify_all();
        while g.current != Some(id) {
            g = self.cv.wait(g).unwrap();
        }
    }

    /// vthread side: give the baton back for good (thread is about to exit).
    pub fn exit(&self, id: usize) {
        self.reattach(id);
        let mut g = self.m.lock().unwrap();
        debug_assert_eq!(g.current, Some(id));
        g.current = None;
        g.last = Yield::Exiting;
        self.cv.notify_all();
    }

    /// scheduler side: let `id` run until its next yield point; returns why it yielded.
    pub fn run(&self, id: usize) -> Yield {
        let mut g = self.m.lock().unwrap();
        debug_assert!(g.current.is_none());
        g.current = Some(id);
        self.cv.notify_all();
        while g.current.is_some() {
            g = self.cv.wait(g).unwrap();
        }
        g.last.clone()
    }
}

//! Deterministic expansion of string seeds into arbitrary Unicode text.
use crate::prog::StrSeed;

const POOL_ASCII: &[&str] = &["a", "B", "7", "_", "-", " ", ".", ":", "/", "x"];
const POOL_CTRL: &[&str] = &["\0", "\u{1}", "\n", "\r", "\t", "\u{7f}", "a", "\u{1b}"];
const POOL_WIDE: &[&str] = &["😀", "𝔘", "🧪", "é", "ß", "中", "\u{301}", "𐍈", "ñ", "\u{200d}"];
const POOL_HOSTILE: &[&str] = &["\"", "\\", "{", "}", "'", "<", "&", "%s", "\u{202e}", "א", "-", "=", ","];

pub fn expand(s: StrSeed) -> String {
    let l = s.l as usize;
    let pool: &[&str] = match s.c {
        0 => POOL_ASCII,
        1 => return String::new(),
        2 => POOL_CTRL,
        3 => POOL_WIDE,
        4 => {
            // long: up to ~10 KB
            let mut out = String::new();
            for i in 0..(l * 8 + 1) {
                out.push_str(POOL_WIDE[(i * 7 + l) % POOL_WIDE.len()]);
                out.push_str("abcdefghijklmnopqrstuvwxyz0123456789");
            }
            return out;
        }
        _ => POOL_HOSTILE,
    };
    let mut out = String::new();
    let mut x = (s.l as usize).wrapping_mul(2654435761) ^ (s.c as usize);
    for _ in 0..l {
        x = x.wrapping_mul(6364136223846793005).wrapping_add(1442695040888963407);
        out.push_str(pool[(x >> 33) % pool.len()]);
    }
    out
}

pub fn derive(s: StrSeed, i: u8) -> StrSeed {
    StrSeed {
        c: s.c,
        l: s.l.wrapping_mul(3).wrapping_add(i.wrapping_mul(5)) % 32,
    }
}

//! C07 state (viii): tracing calls made while the thread's local storage is being torn down.
//! A user thread-local, registered before or after the library's thread-locals, runs a generated
//! call sequence from its destructor and drops stashed spans and guards there. Runs on plain OS
//! threads (no baton): the oracle is only "every call returns".

use std::cell::RefCell;
use std::panic::{catch_unwind, AssertUnwindSafe};
use std::sync::Mutex;

use fastrace::local::{LocalCollector, LocalSpans};
use fastrace::prelude::*;
use proptest::prelude::*;
use serde::{Deserialize, Serialize};

#[derive(Clone, Debug, Serialize, Deserialize, PartialEq)]
pub enum TdOp {
    Root,
    ChildOfStash,
    SetLocalParentOfStash,
    EnterLocal,
    LocalEvent,
    LocalProp,
    ChildOfLocal,
    CtxOfLocal,
    CtxOfStash,
    AddEventStash,
    AddPropStash,
    CollectorStart,
    PopGuard,
    TraceFn,
    Flush,
    DropStashedSpan,
    PushStashedSet,
    CancelStash,
    Elapsed,
    RandomIds,
}

#[derive(Clone, Debug, Serialize, Deserialize, PartialEq)]
pub struct TdCase {
    /// register the user's thread-local before the library's thread-locals are first touched
    pub user_tls_first: bool,
    pub body: Vec<TdOp>,
    pub dtor: Vec<TdOp>,
    /// what the body leaves in the thread-local for the destructor to drop
    pub stash_guards: bool,
    pub reporter: bool,
}

pub fn strategy() -> BoxedStrategy<TdCase> {
    let op = prop_oneof![
        Just(TdOp::Root),
        Just(TdOp::ChildOfStash),
        Just(TdOp::SetLocalParentOfStash),
        Just(TdOp::EnterLocal),
        Just(TdOp::LocalEvent),
        Just(TdOp::LocalProp),
        Just(TdOp::ChildOfLocal),
        Just(TdOp::CtxOfLocal),
        Just(TdOp::CtxOfStash),
        Just(TdOp::AddEventStash),
        Just(TdOp::AddPropStash),
        Just(TdOp::CollectorStart),
        Just(TdOp::PopGuard),
        Just(TdOp::TraceFn),
        Just(TdOp::Flush),
        Just(TdOp::DropStashedSpan),
        Just(TdOp::PushStashedSet),
        Just(TdOp::CancelStash),
        Just(TdOp::Elapsed),
        Just(TdOp::RandomIds),
    ];
    (
        any::<bool>(),
        proptest::collection::vec(op.clone(), 0..10),
        proptest::collection::vec(op, 0..10),
        any::<bool>(),
    )
        .prop_map(|(user_tls_first, body, dtor, stash_guards)| TdCase {
            user_tls_first,
            body,
            dtor,
            stash_guards,
            reporter: true,
        })
        .boxed()
}

enum G {
    Local(LocalSpan),
    Parent(crate::exec::LocalParentGuard),
    Coll(LocalCollector),
}

#[derive(Default)]
struct State {
    spans: Vec<Span>,
    guards: Vec<G>,
    sets: Vec<LocalSpans>,
    dtor: Vec<TdOp>,
    armed: bool,
}

pub static FAILURES: Mutex<Vec<String>> = Mutex::new(Vec::new());

struct UserTls(RefCell<State>);

impl Drop for UserTls {
    fn drop(&mut self) {
        let st = self.0.get_mut();
        if !st.armed {
            return;
        }
        let ops = std::mem::take(&mut st.dtor);
        for op in &ops {
            run_op(st, op, "destructor");
        }
        // drop what is left, guards in reverse order of creation
        while let Some(g) = st.guards.pop() {
            guarded("destructor: guard drop", || drop(g));
        }
        while let Some(s) = st.spans.pop() {
            guarded("destructor: span drop", || drop(s));
        }
    }
}

thread_local! {
    static USER: UserTls = UserTls(RefCell::new(State::default()));
}

#[fastrace::trace]
fn traced(x: u32) -> u32 {
    x + 1
}

fn guarded<R>(what: &str, f: impl FnOnce() -> R) -> Option<R> {
    match catch_unwind(AssertUnwindSafe(f)) {
        Ok(r) => Some(r),
        Err(p) => {
            let msg = if let Some(s) = p.downcast_ref::<&str>() {
                s.to_string()
            } else if let Some(s) = p.downcast_ref::<String>() {
                s.clone()
            } else {
                "?".into()
            };
            FAILURES.lock().unwrap_or_else(|e| e.into_inner()).push(format!("{}: {}", what, msg));
            None
        }
    }
}

fn run_op(st: &mut State, op: &TdOp, phase: &str) {
    let w = |s: &str| format!("{}: {}", phase, s);
    match op {
        TdOp::Root => {
            static N: std::sync::atomic::AtomicU64 = std::sync::atomic::AtomicU64::new(1);
            let n = N.fetch_add(1, std::sync::atomic::Ordering::Relaxed);
            if let Some(s) = guarded(&w("Span::root"), || Span::root("td-root", SpanContext::new(TraceId(n as u128), SpanId(0)))) {
                st.spans.push(s);
            }
        }
        TdOp::ChildOfStash => {
            if let Some(p) = st.spans.last() {
                if let Some(s) = guarded(&w("Span::enter_with_parent"), || Span::enter_with_parent("td-child", p)) {
                    st.spans.push(s);
                }
            }
        }
        TdOp::SetLocalParentOfStash => {
            if let Some(p) = st.spans.last() {
                if let Some(g) = guarded(&w("Span::set_local_parent"), || p.set_local_parent()) {
                    st.guards.push(G::Parent(g));
                }
            }
        }
        TdOp::EnterLocal => {
            if let Some(l) = guarded(&w("LocalSpan::enter_with_local_parent"), || {
                LocalSpan::enter_with_local_parent("td-local").with_property(|| ("k", "v"))
            }) {
                st.guards.push(G::Local(l));
            }
        }
        TdOp::LocalEvent => {
            guarded(&w("LocalSpan::add_event"), || LocalSpan::add_event(Event::new("td-ev").with_property(|| ("k", "v"))));
        }
        TdOp::LocalProp => {
            guarded(&w("LocalSpan::add_property"), || LocalSpan::add_property(|| ("k", "v")));
        }
        TdOp::ChildOfLocal => {
            if let Some(s) = guarded(&w("Span::enter_with_local_parent"), || Span::enter_with_local_parent("td-col")) {
                st.spans.push(s);
            }
        }
        TdOp::CtxOfLocal => {
            guarded(&w("SpanContext::current_local_parent"), SpanContext::current_local_parent);
        }
        TdOp::CtxOfStash => {
            if let Some(p) = st.spans.last() {
                guarded(&w("SpanContext::from_span"), || SpanContext::from_span(p));
            }
        }
        TdOp::AddEventStash => {
            if let Some(p) = st.spans.last() {
                guarded(&w("Span::add_event"), || p.add_event(Event::new("td-hev")));
            }
        }
        TdOp::AddPropStash => {
            if let Some(p) = st.spans.last() {
                guarded(&w("Span::add_property"), || p.add_property(|| ("k", "v")));
            }
        }
        TdOp::CollectorStart => {
            if let Some(c) = guarded(&w("LocalCollector::start"), LocalCollector::start) {
                st.guards.push(G::Coll(c));
            }
        }
        TdOp::PopGuard => match st.guards.pop() {
            Some(G::Coll(c)) => {
                if let Some(s) = guarded(&w("LocalCollector::collect"), || c.collect()) {
                    st.sets.push(s);
                }
            }
            Some(g) => {
                guarded(&w("guard drop"), || drop(g));
            }
            None => {}
        },
        TdOp::TraceFn => {
            guarded(&w("#[trace] fn"), || traced(1));
        }
        TdOp::Flush => {
            guarded(&w("fastrace::flush"), fastrace::flush);
        }
        TdOp::DropStashedSpan => {
            if let Some(s) = st.spans.pop() {
                guarded(&w("Span::drop"), || drop(s));
            }
        }
        TdOp::PushStashedSet => {
            if let (Some(p), Some(set)) = (st.spans.last(), st.sets.last()) {
                let set = set.clone();
                guarded(&w("Span::push_child_spans"), || p.push_child_spans(set));
                if let Some(set) = st.sets.last() {
                    guarded(&w("LocalSpans::to_span_records"), || set.to_span_records(SpanContext::new(TraceId(5), SpanId(6))));
                }
            }
        }
        TdOp::CancelStash => {
            if let Some(p) = st.spans.last() {
                guarded(&w("Span::cancel"), || p.cancel());
            }
        }
        TdOp::RandomIds => {
            guarded(&w("SpanContext::random"), || (SpanContext::random(), TraceId::random(), SpanId::random()));
        }
        TdOp::Elapsed => {
            if let Some(p) = st.spans.last() {
                guarded(&w("Span::elapsed"), || p.elapsed());
            }
        }
    }
}

/// runs one case on a fresh thread; returns the failures recorded
pub fn run(case: &TdCase) -> Vec<String> {
    FAILURES.lock().unwrap_or_else(|e| e.into_inner()).clear();
    let c = case.clone();
    let h = std::thread::Builder::new()
        .name("vt-teardown".into())
        .spawn(move || {
            if c.user_tls_first {
                USER.with(|u| u.0.borrow_mut().armed = true);
            } else {
                // touch the library's thread-locals first
                let _ = SpanContext::current_local_parent();
                let r = Span::root("td-touch", SpanContext::new(TraceId(77), SpanId(0)));
                drop(r);
                USER.with(|u| u.0.borrow_mut().armed = true);
            }
            let mut st = State::default();
            for op in &c.body {
                run_op(&mut st, op, "body");
            }
            if !c.stash_guards {
                while let Some(g) = st.guards.pop() {
                    guarded("body: guard drop", || drop(g));
                }
            }
            USER.with(|u| {
                let mut s = u.0.borrow_mut();
                s.spans = std::mem::take(&mut st.spans);
                s.guards = std::mem::take(&mut st.guards);
                s.sets = std::mem::take(&mut st.sets);
                s.dtor = c.dtor.clone();
            });
        })
        .unwrap();
    if h.join().is_err() {
        FAILURES.lock().unwrap_or_else(|e| e.into_inner()).push("the thread itself panicked".into());
    }
    std::mem::take(&mut *FAILURES.lock().unwrap_or_else(|e| e.into_inner()))
}

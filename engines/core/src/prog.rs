//! Program language: operations, programs, schedules and their proptest strategies.
//! Operation arguments are small selectors resolved against the *current* state by the
//! interpreter with the monotone map `i*len>>16`, so every generated program is executable and
//! shrinking keeps it executable.

use proptest::prelude::*;
use proptest::strategy::Union;
use serde::{Deserialize, Serialize};

/// Seed of a generated string: class selects the alphabet, len the length of the variable part.
#[derive(Clone, Copy, Debug, Serialize, Deserialize, PartialEq, Default)]
pub struct StrSeed {
    pub c: u8,
    pub l: u8,
}

/// Mini operations run from inside user closures (re-entrancy, C07) and scripted polls (C13/C14).
#[derive(Clone, Debug, Serialize, Deserialize, PartialEq)]
pub enum Mini {
    /// open a local span (closed at the end of the enclosing closure / poll, LIFO)
    EnterLocal { s: StrSeed },
    /// close the innermost local span opened by this mini program
    ExitLocal,
    LocalEvent { s: StrSeed },
    LocalProp { s: StrSeed },
    /// Span::enter_with_local_parent, finished immediately or kept (finished by the reaper)
    ChildOfLocal { s: StrSeed, keep: bool },
    CtxOfLocal,
    TraceFn,
    RootAndDrop { s: StrSeed },
    Flush,
    /// poll a nested adapter (selector into the adapter arena)
    PollNested { a: u16 },
    Probe,
}

#[derive(Clone, Debug, Serialize, Deserialize, PartialEq)]
pub enum PollEnd {
    Pending,
    Ready,
    /// streams: Ready(Some(item)); sinks: Ready(Err)
    Alt,
    /// the inner object panics at the end of this call (after its actions); the panic unwinds
    /// through the adapter and is caught by the caller (a task runtime does the same). The object
    /// is not called again afterwards, only dropped.
    Panic,
}

#[derive(Clone, Debug, Serialize, Deserialize, PartialEq)]
pub struct PollScript {
    pub acts: Vec<Mini>,
    pub end: PollEnd,
}

#[derive(Clone, Copy, Debug, Serialize, Deserialize, PartialEq)]
pub enum AdapterKind {
    InSpan,
    EnterOnPoll,
    /// enter_on_poll(name) wrapped by in_span(span)
    InSpanEnterOnPoll,
    Stream,
    Sink,
    /// an inner object that is both a stream and a sink (a duplex transport), wrapped once
    /// through `StreamExt::in_span`
    DuplexViaStream,
    /// the same inner object wrapped through `SinkExt::in_span`
    DuplexViaSink,
    /// `stream.in_span(a).in_span(b)`: two adapters chained with method-call syntax; `a` is the
    /// local parent during the calls, `b`'s scope lies around it, both end with the stream
    StreamTwice,
    /// the same for a sink
    SinkTwice,
    /// a `#[trace]` function that returns a boxed future (`Box::pin(async move {..})`): the span
    /// is created by the call, under the caller's local parent, and bound to the returned future,
    /// which is polled later, possibly elsewhere (at most one per case: the span's name is fixed)
    TracedBoxed,
}

#[derive(Clone, Copy, Debug, Serialize, Deserialize, PartialEq)]
pub enum Entry {
    Poll,
    PollNext,
    PollReady,
    StartSend,
    PollFlush,
    PollClose,
}

#[derive(Clone, Debug, Serialize, Deserialize, PartialEq)]
pub enum Op {
    Root { tc: u8, tr: u64, pc: u8, pr: u64, sampled: bool, np: u8, s: StrSeed },
    Child { parents: Vec<u16>, np: u8, s: StrSeed },
    Noop,
    ChildOfLocal { np: u8, s: StrSeed },
    SetLocalParent { span: u16, probe: bool },
    EnterLocal {
        np: u8,
        s: StrSeed,
        probe: bool,
        /// tracing calls made by the closure passed to `with_property/ies` (only with np > 0)
        #[serde(default)]
        re: Vec<Mini>,
    },
    CollectorStart { probe: bool },
    PopGuard {
        collect: bool,
        early: bool,
        /// the guard is dropped by a panic unwinding through it (caught right outside)
        #[serde(default)]
        unwind: bool,
    },
    PushChildSpans {
        span: u16,
        set: u16,
        /// push by value and keep no clone of the set
        #[serde(default)]
        last: bool,
    },
    ToSpanRecords { set: u16, tc: u8, tr: u64, pr: u64 },
    AddProps { handle: Option<u16>, n: u8, s: StrSeed, re: Vec<Mini> },
    AddEvent { handle: Option<u16>, n: u8, s: StrSeed, re: Vec<Mini> },
    Finish { span: u16 },
    Cancel { span: u16 },
    CtxOfSpan { span: u16 },
    CtxOfLocal,
    RootFromCtx { ctx: u16, via_tp: bool, s: StrSeed },
    Elapsed { span: u16 },
    Spin { us: u16 },
    Flush,
    Probe,
    /// wrap a scripted future/stream/sink with an adapter bound to `span` (span moves in)
    Wrap { kind: AdapterKind, span: u16, s: StrSeed, script: Vec<PollScript> },
    Drive { a: u16, entry: Entry },
    DropAdapter { a: u16 },
    /// fault injection (sched engine): push cheap submits until only `leave` slots are free
    Fill { leave: u8 },
    /// a backlog of `n` cheap commands on this thread's queue (no overload: the ring keeps room)
    Bulk { n: u16 },
    /// `n` whole traces in a row on this thread: root created and finished (2 forced/plain commands each)
    Volley { n: u16 },
    /// `n` more local spans/events/props in the current scope (far below the scope limit)
    Many { n: u8, kind: u8 },
    /// scope-limit episode: n local spans/events/props in the current scope
    Burst { n: u16, kind: u8 },
    /// nest `n` local-parent scopes / collectors (popped by the normaliser)
    Nest { n: u16, span: u16 },
    /// ages the thread: opens and closes k*1000 scopes (LocalCollector start + drop), which leaves
    /// no trace but advances the per-thread scope bookkeeping of a long-lived thread
    Churn { k: u8 },
    /// the vthread ends here (remaining ops are skipped; guards popped first)
    Exit,
    /// call a `#[trace]` function under the current context
    TraceFn { kind: u8 },
    /// text handed to the decoders (`decode_w3c_traceparent`, `TraceId/SpanId::from_str`): a
    /// canonical header with `width` bytes at offset `at` replaced by one character of that many
    /// bytes (the length stays 55), or cut at `at`, or with a character inserted
    DecodeText { kind: u8, at: u8, width: u8 },
    /// `inner` is executed from a destructor while the thread unwinds from a panic that has
    /// nothing to do with tracing (`std::thread::panicking()` is true during the call); the panic
    /// is caught right outside. What the operation means is unchanged.
    WhilePanicking { inner: Box<Op> },
}

#[derive(Clone, Debug, Serialize, Deserialize, PartialEq)]
pub struct Program {
    pub cancelable: bool,
    pub threads: Vec<Vec<Op>>,
    /// generated collector cycles (more are added for flush requests and the final drain)
    pub cycles: u8,
    /// (vthread choice, run length in yield points)
    pub schedule: Vec<(u8, u8)>,
    /// sched engine: the collector also yields after every command it takes out of a queue (not
    /// only before a queue and when it finds one empty)
    #[serde(default)]
    pub fine: bool,
    /// op-granularity engine: this many extra threads use tracing once before the case starts and
    /// stay alive until it ends (a server's worker pool: many registered command queues)
    #[serde(default)]
    pub pool: u8,
    /// sched engine: vthreads register their command queue with their first command instead of
    /// at birth, and may be born while a collector cycle is in progress
    #[serde(default)]
    pub lazy_reg: bool,
    /// every collector cycle of the program is followed at once by this many further cycles (a
    /// collector that keeps cycling while nothing happens)
    #[serde(default)]
    pub idle_cycles: u32,
}

/// Op kinds, used as weight indices.
#[derive(Clone, Copy, Debug, PartialEq, Eq, Hash)]
#[repr(usize)]
pub enum K {
    Root,
    Child,
    MultiChild,
    Noop,
    ChildOfLocal,
    SetLocalParent,
    EnterLocal,
    CollectorStart,
    PopGuard,
    PushChildSpans,
    ToSpanRecords,
    AddPropsH,
    AddPropsL,
    AddEventH,
    AddEventL,
    Finish,
    Cancel,
    CtxOfSpan,
    CtxOfLocal,
    RootFromCtx,
    Elapsed,
    Spin,
    Flush,
    Probe,
    Wrap,
    Drive,
    DropAdapter,
    Fill,
    Bulk,
    Volley,
    Many,
    Burst,
    Nest,
    Churn,
    Exit,
    TraceFn,
    WhilePanicking,
    DecodeText,
    N_,
}

#[derive(Clone, Debug)]
pub struct Profile {
    pub w: [u32; K::N_ as usize],
    pub threads: (usize, usize),
    pub ops: (usize, usize),
    pub cycles: (u8, u8),
    pub sched_len: (usize, usize),
    /// None: generated; Some(b): fixed
    pub cancelable: Option<bool>,
    pub p_sampled: f64,
    /// max parents of a multi-parent child
    pub max_parents: usize,
    pub max_props: u8,
    /// string classes allowed (bitmask over StrSeed classes)
    pub str_classes: u8,
    /// allow closures to carry re-entrant mini programs
    pub reentrant: bool,
    pub adapter_kinds: Vec<AdapterKind>,
    pub max_spin_us: u16,
    pub unique_traces: bool,
    /// directed templates mixed with free generation: (weight out of 10, template)
    pub templates: Vec<(u32, Template)>,
    /// share (in percent) of programs that run beside a pool of 33-40 registered threads
    pub pool_pct: u32,
    /// share (in percent) of programs whose collector cycles are each followed by hundreds to
    /// tens of thousands of idle cycles (hooked scheduler only: a real flush() per cycle is too slow)
    pub idle_pct: u32,
}

#[derive(Clone, Copy, Debug, PartialEq)]
pub enum Template {
    /// fill the ring, cancel and/or finish a root while it is full, drain, send more
    OverflowReplay,
    /// root created on one vthread and finished / cancelled on another around a cycle
    CrossQueue,
    /// a forest captured under a LocalCollector, pushed to several parents and converted
    Forest,
    /// children finished on other vthreads before the root finishes (cancelable must-sets)
    FanIn,
    /// extraction points: nested scopes with open local spans, then remote roots
    Extract,
    /// a vthread fills its ring completely with harmless commands and exits at once (nothing is
    /// parked, no signal is pending); other vthreads and cycles run around it
    FullExit,
    /// more forced commands parked behind a full ring than the ring itself holds
    ParkedBacklog,
    /// a vthread's ring is full when it starts a trace; the ring is drained; then spans of that
    /// trace finish on this and on other vthreads whose queues have room
    FullThenTrace,
    /// beside a pool of registered threads: a short-lived vthread attaches to another vthread's
    /// span and exits, a vthread born afterwards makes its first tracing call, then the target
    /// finishes
    PoolHandoff,
    /// beside a pool of registered threads: an adapter bound to a span is created and polled once
    /// on one vthread, then completed (or dropped) on a short-lived vthread that exits; a vthread
    /// born afterwards makes its first tracing call; then the trace finishes
    PoolAdapter,
    /// a captured set is pushed to a span while the thread's ring is full (the push is dropped:
    /// permitted), a cycle drains the ring, the same set is pushed to the same span again
    OverloadPush,
    /// a scope with open local spans is filled to (or just short of) its limit; local spans,
    /// events and properties follow while it is full, then everything unwinds
    ScopeFull,
}

impl Profile {
    pub fn base() -> Self {
        let mut w = [0u32; K::N_ as usize];
        for (k, v) in [
            (K::Root, 10),
            (K::Child, 10),
            (K::MultiChild, 4),
            (K::Noop, 1),
            (K::ChildOfLocal, 6),
            (K::SetLocalParent, 10),
            (K::EnterLocal, 14),
            (K::PopGuard, 18),
            (K::Finish, 14),
            (K::WhilePanicking, 2),
        ] {
            w[k as usize] = v;
        }
        Profile {
            w,
            threads: (1, 3),
            ops: (0, 24),
            cycles: (0, 4),
            sched_len: (0, 24),
            cancelable: Some(false),
            p_sampled: 0.9,
            max_parents: 4,
            max_props: 3,
            str_classes: 0b0000_0111,
            reentrant: false,
            adapter_kinds: vec![],
            max_spin_us: 0,
            unique_traces: false,
            templates: vec![],
            pool_pct: 0,
            idle_pct: 0,
        }
    }
    pub fn set(mut self, ks: &[(K, u32)]) -> Self {
        for (k, v) in ks {
            self.w[*k as usize] = *v;
        }
        self
    }
}

pub fn strseed(classes: u8) -> BoxedStrategy<StrSeed> {
    let cs: Vec<u8> = (0..8u8).filter(|i| classes & (1 << i) != 0).collect();
    (proptest::sample::select(cs), 0u8..=255u8).prop_map(|(c, l)| StrSeed { c, l: l / 8 }).boxed()
}

fn mini(p: &Profile, depth: u32) -> BoxedStrategy<Mini> {
    let s = strseed(p.str_classes);
    let mut v: Vec<(u32, BoxedStrategy<Mini>)> = vec![
        (6, s.clone().prop_map(|s| Mini::EnterLocal { s }).boxed()),
        (5, Just(Mini::ExitLocal).boxed()),
        (4, s.clone().prop_map(|s| Mini::LocalEvent { s }).boxed()),
        (3, s.clone().prop_map(|s| Mini::LocalProp { s }).boxed()),
        (4, (s.clone(), any::<bool>()).prop_map(|(s, keep)| Mini::ChildOfLocal { s, keep }).boxed()),
        (3, Just(Mini::CtxOfLocal).boxed()),
        (2, Just(Mini::Probe).boxed()),
    ];
    // calls whose effects the reference model does not follow inside a closure (instrumented
    // functions with fixed names, whole traces, collector cycles): only where the oracle looks at
    // panics alone
    if p.reentrant && p.w[K::TraceFn as usize] > 0 {
        v.push((2, Just(Mini::TraceFn).boxed()));
        v.push((1, s.clone().prop_map(|s| Mini::RootAndDrop { s }).boxed()));
        v.push((1, Just(Mini::Flush).boxed()));
    }
    if depth > 0 && !p.adapter_kinds.is_empty() {
        v.push((3, any::<u16>().prop_map(|a| Mini::PollNested { a }).boxed()));
    }
    Union::new_weighted(v).boxed()
}

pub fn poll_script(p: &Profile) -> impl Strategy<Value = PollScript> {
    (
        proptest::collection::vec(mini(p, 1), 0..6),
        prop_oneof![6 => Just(PollEnd::Pending), 6 => Just(PollEnd::Ready), 4 => Just(PollEnd::Alt), 1 => Just(PollEnd::Panic)],
    )
        .prop_map(|(acts, end)| PollScript { acts, end })
}

pub fn op_strategy(p: &Profile) -> BoxedStrategy<Op> {
    let s = strseed(p.str_classes);
    let np = 0u8..=p.max_props;
    let ps = p.p_sampled;
    let re = if p.reentrant {
        proptest::collection::vec(mini(p, 0), 0..4).boxed()
    } else {
        Just(vec![]).boxed()
    };
    let mut v: Vec<(u32, BoxedStrategy<Op>)> = Vec::new();
    let mut inner: Vec<(u32, BoxedStrategy<Op>)> = Vec::new();
    let mut add = |k: K, st: BoxedStrategy<Op>| {
        let w = p.w[k as usize];
        if w > 0 {
            if matches!(
                k,
                K::Root | K::Child | K::MultiChild | K::ChildOfLocal | K::SetLocalParent | K::EnterLocal | K::CollectorStart | K::PopGuard | K::PushChildSpans
                    | K::AddPropsH | K::AddPropsL | K::AddEventH | K::AddEventL | K::Finish | K::Cancel | K::CtxOfSpan | K::CtxOfLocal | K::Probe | K::Drive | K::DropAdapter | K::TraceFn
            ) {
                inner.push((w, st.clone()));
            }
            v.push((w, st));
        }
    };
    add(
        K::Root,
        (0u8..6, any::<u64>(), 0u8..5, any::<u64>(), proptest::bool::weighted(ps), np.clone(), s.clone())
            .prop_map(|(tc, tr, pc, pr, sampled, np, s)| Op::Root { tc, tr, pc, pr, sampled, np, s })
            .boxed(),
    );
    add(
        K::Child,
        (any::<u16>(), np.clone(), s.clone())
            .prop_map(|(a, np, s)| Op::Child { parents: vec![a], np, s })
            .boxed(),
    );
    add(
        K::MultiChild,
        (proptest::collection::vec(any::<u16>(), 0..=p.max_parents), np.clone(), s.clone())
            .prop_map(|(parents, np, s)| Op::Child { parents, np, s })
            .boxed(),
    );
    add(K::Noop, Just(Op::Noop).boxed());
    add(K::ChildOfLocal, (np.clone(), s.clone()).prop_map(|(np, s)| Op::ChildOfLocal { np, s }).boxed());
    add(
        K::SetLocalParent,
        (any::<u16>(), any::<bool>()).prop_map(|(span, probe)| Op::SetLocalParent { span, probe }).boxed(),
    );
    add(
        K::EnterLocal,
        (np.clone(), s.clone(), any::<bool>(), re.clone())
            .prop_map(|(np, s, probe, re)| Op::EnterLocal { np, s, probe, re })
            .boxed(),
    );
    add(K::CollectorStart, any::<bool>().prop_map(|probe| Op::CollectorStart { probe }).boxed());
    add(
        K::PopGuard,
        (proptest::bool::weighted(0.85), proptest::bool::weighted(0.3), proptest::bool::weighted(0.12))
            .prop_map(|(collect, early, unwind)| Op::PopGuard { collect, early, unwind })
            .boxed(),
    );
    add(
        K::PushChildSpans,
        (any::<u16>(), any::<u16>(), proptest::bool::weighted(0.3)).prop_map(|(span, set, last)| Op::PushChildSpans { span, set, last }).boxed(),
    );
    add(
        K::ToSpanRecords,
        (any::<u16>(), 0u8..6, any::<u64>(), any::<u64>())
            .prop_map(|(set, tc, tr, pr)| Op::ToSpanRecords { set, tc, tr, pr })
            .boxed(),
    );
    add(
        K::AddPropsH,
        (any::<u16>(), 1u8..=p.max_props.max(1), s.clone(), re.clone())
            .prop_map(|(h, n, s, re)| Op::AddProps { handle: Some(h), n, s, re })
            .boxed(),
    );
    add(
        K::AddPropsL,
        (1u8..=p.max_props.max(1), s.clone(), re.clone())
            .prop_map(|(n, s, re)| Op::AddProps { handle: None, n, s, re })
            .boxed(),
    );
    add(
        K::AddEventH,
        (any::<u16>(), 0u8..=p.max_props, s.clone(), re.clone())
            .prop_map(|(h, n, s, re)| Op::AddEvent { handle: Some(h), n, s, re })
            .boxed(),
    );
    add(
        K::AddEventL,
        (0u8..=p.max_props, s.clone(), re.clone())
            .prop_map(|(n, s, re)| Op::AddEvent { handle: None, n, s, re })
            .boxed(),
    );
    add(K::Finish, any::<u16>().prop_map(|span| Op::Finish { span }).boxed());
    add(K::Cancel, any::<u16>().prop_map(|span| Op::Cancel { span }).boxed());
    add(K::CtxOfSpan, any::<u16>().prop_map(|span| Op::CtxOfSpan { span }).boxed());
    add(K::CtxOfLocal, Just(Op::CtxOfLocal).boxed());
    add(
        K::RootFromCtx,
        (any::<u16>(), any::<bool>(), s.clone())
            .prop_map(|(ctx, via_tp, s)| Op::RootFromCtx { ctx, via_tp, s })
            .boxed(),
    );
    add(K::Elapsed, any::<u16>().prop_map(|span| Op::Elapsed { span }).boxed());
    let ms = p.max_spin_us;
    add(K::Spin, (0u16..=ms).prop_map(|us| Op::Spin { us }).boxed());
    add(K::Flush, Just(Op::Flush).boxed());
    add(K::Probe, Just(Op::Probe).boxed());
    if !p.adapter_kinds.is_empty() {
        add(
            K::Wrap,
            (
                proptest::sample::select(p.adapter_kinds.clone()),
                any::<u16>(),
                s.clone(),
                proptest::collection::vec(poll_script(p), 0..5),
            )
                .prop_map(|(kind, span, s, script)| Op::Wrap { kind, span, s, script })
                .boxed(),
        );
        add(
            K::Drive,
            (
                any::<u16>(),
                proptest::sample::select(vec![
                    Entry::PollNext,
                    Entry::PollReady,
                    Entry::StartSend,
                    Entry::PollFlush,
                    Entry::PollClose,
                ]),
            )
                .prop_map(|(a, entry)| Op::Drive { a, entry })
                .boxed(),
        );
        add(K::DropAdapter, any::<u16>().prop_map(|a| Op::DropAdapter { a }).boxed());
    }
    add(K::Fill, (0u8..4).prop_map(|leave| Op::Fill { leave }).boxed());
    add(K::Bulk, prop_oneof![2 => 100u16..9500, 2 => 4000u16..4200, 1 => 8100u16..8300].prop_map(|n| Op::Bulk { n }).boxed());
    add(K::Volley, prop_oneof![2 => 1u16..8, 3 => 60u16..110, 2 => 250u16..262].prop_map(|n| Op::Volley { n }).boxed());
    add(K::Many, (prop_oneof![1 => 20u8..60, 3 => 60u8..140, 1 => 140u8..255], 0u8..3).prop_map(|(n, kind)| Op::Many { n, kind }).boxed());
    add(
        K::Burst,
        (0u16..60, 0u8..3).prop_map(|(n, kind)| Op::Burst { n, kind }).boxed(),
    );
    add(K::Nest, (0u16..40, any::<u16>()).prop_map(|(n, span)| Op::Nest { n, span }).boxed());
    add(K::Churn, prop_oneof![3 => 1u8..8, 1 => 60u8..72, 1 => 128u8..135].prop_map(|k| Op::Churn { k }).boxed());
    add(K::Exit, Just(Op::Exit).boxed());
    add(K::TraceFn, (0u8..4).prop_map(|kind| Op::TraceFn { kind }).boxed());
    add(K::DecodeText, (0u8..4, 0u8..56, 1u8..5).prop_map(|(kind, at, width)| Op::DecodeText { kind, at, width }).boxed());
    let wp = p.w[K::WhilePanicking as usize];
    if wp > 0 && !inner.is_empty() {
        v.push((wp, Union::new_weighted(inner).prop_map(|o| Op::WhilePanicking { inner: Box::new(o) }).boxed()));
    }
    Union::new_weighted(v).boxed()
}

fn template_strategy(p: &Profile, t: Template) -> BoxedStrategy<Program> {
    let op = op_strategy(p);
    let canc = match p.cancelable {
        Some(b) => Just(b).boxed(),
        None => any::<bool>().boxed(),
    };
    let sched = proptest::collection::vec((any::<u8>(), 1u8..12), 0..=p.sched_len.1);
    let root = Op::Root { tc: 0, tr: 0, pc: 0, pr: 0, sampled: true, np: 0, s: StrSeed { c: 0, l: 1 } };
    match t {
        Template::OverflowReplay => (
            canc,
            0u8..3,
            any::<bool>(),
            any::<bool>(),
            proptest::collection::vec(op.clone(), 0..3),
            proptest::collection::vec(op.clone(), 1..5),
            proptest::collection::vec(op, 0..6),
            2u8..8,
            sched,
            prop_oneof![2 => Just(0u16), 1 => 1u16..8, 2 => 60u16..110],
        )
            .prop_map(move |(cancelable, leave, do_cancel, child_first, pre, post, other, cycles, schedule, volley)| {
                let mut t0 = vec![root.clone()];
                if child_first {
                    t0.push(Op::Child { parents: vec![0], np: 0, s: StrSeed { c: 0, l: 1 } });
                    t0.push(Op::Finish { span: 65535 });
                }
                t0.extend(pre);
                t0.push(Op::Fill { leave });
                if do_cancel {
                    t0.push(Op::Cancel { span: 0 });
                }
                if volley > 0 {
                    // more forced commands parked behind the parked cancel/finish of this thread
                    t0.push(Op::Volley { n: volley });
                }
                t0.push(Op::Finish { span: 0 });
                t0.push(Op::Flush);
                t0.extend(post);
                Program { cancelable, threads: vec![t0, other], cycles, schedule, fine: false, pool: 0, lazy_reg: false, idle_cycles: 0 }
            })
            .boxed(),
        Template::Forest => (
            canc,
            proptest::collection::vec(
                prop_oneof![
                    5 => (0u8..3, strseed(p.str_classes)).prop_map(|(np, s)| Op::EnterLocal { np, s, probe: false, re: vec![] }),
                    4 => Just(Op::PopGuard { collect: true, early: false, unwind: false }),
                    2 => (0u8..3, strseed(p.str_classes)).prop_map(|(n, s)| Op::AddEvent { handle: None, n, s, re: vec![] }),
                    2 => (1u8..3, strseed(p.str_classes)).prop_map(|(n, s)| Op::AddProps { handle: None, n, s, re: vec![] }),
                ],
                2..12,
            ),
            0usize..4,
            proptest::collection::vec(any::<u16>(), 1..6),
            0u8..16,
            proptest::collection::vec(op.clone(), 0..5),
            0u8..3,
            sched,
        )
            .prop_map(move |(cancelable, forest, open_at_collect, pushes, shape, tail, cycles, schedule)| {
                // shape: bit 0 = a two-parent span is among the targets; bits 1-2 = which of the two
                // roots belongs to an unsampled trace (1: the first, 2: the second, else none);
                // bit 3 = order of the two-parent span's parents
                let multi = shape & 1 == 1;
                let unsampled = (shape >> 1) & 3;
                let mk_root = |sampled: bool| match &root {
                    Op::Root { tc, tr, pc, pr, np, s, .. } => Op::Root { tc: *tc, tr: *tr, pc: *pc, pr: *pr, sampled, np: *np, s: *s },
                    _ => unreachable!(),
                };
                let mut t0 = vec![mk_root(unsampled != 1), mk_root(unsampled != 2), Op::Child { parents: vec![0], np: 0, s: StrSeed { c: 0, l: 1 } }];
                if multi {
                    let parents = if shape & 8 == 0 { vec![0, 30000] } else { vec![30000, 0] };
                    t0.push(Op::Child { parents, np: 0, s: StrSeed { c: 0, l: 2 } });
                }
                // "late parents": children of two traces whose roots are finished and reported
                // before the set is pushed to the (still live) children
                let late = open_at_collect % 2 == 1 && !cancelable;
                if late {
                    t0.push(Op::Child { parents: vec![30000], np: 0, s: StrSeed { c: 0, l: 3 } });
                    t0.push(Op::Finish { span: 0 });
                    t0.push(Op::Finish { span: 0 });
                    t0.push(Op::Flush);
                }
                let mut t1 = vec![Op::CollectorStart { probe: false }];
                // keep the forest well nested, leaving `open_at_collect` spans open
                let mut depth = 0usize;
                for o in forest {
                    match o {
                        Op::EnterLocal { .. } => {
                            depth += 1;
                            t1.push(o);
                        }
                        Op::PopGuard { .. } => {
                            if depth > 0 {
                                depth -= 1;
                                t1.push(o);
                            }
                        }
                        o => t1.push(o),
                    }
                }
                while depth > open_at_collect.min(3) {
                    t1.push(Op::PopGuard { collect: true, early: false, unwind: false });
                    depth -= 1;
                }
                t1.push(Op::PopGuard { collect: true, early: depth > 0, unwind: false });
                for sp in pushes {
                    t1.push(Op::PushChildSpans { span: sp, set: 0, last: false });
                }
                t1.push(Op::ToSpanRecords { set: 0, tc: 1, tr: 77, pr: 99 });
                t1.extend(tail);
                Program { cancelable, threads: vec![t0, t1], cycles, schedule, fine: false, pool: 0, lazy_reg: false, idle_cycles: 0 }
            })
            .boxed(),
        Template::FanIn => (canc, 1usize..4, proptest::collection::vec(op.clone(), 0..3), proptest::collection::vec(op.clone(), 0..3), 1u8..6, sched)
            .prop_map(move |(cancelable, nchild, a, b, cycles, schedule)| {
                let mut t0 = vec![root.clone()];
                for _ in 0..nchild {
                    t0.push(Op::Child { parents: vec![0], np: 0, s: StrSeed { c: 0, l: 1 } });
                }
                t0.extend(a);
                let mut t1 = vec![];
                for _ in 0..nchild {
                    t1.push(Op::Finish { span: 65535 });
                }
                t1.extend(b);
                let t2 = vec![Op::Flush, Op::Finish { span: 0 }];
                Program { cancelable, threads: vec![t0, t1, t2], cycles, schedule, fine: false, pool: 0, lazy_reg: false, idle_cycles: 0 }
            })
            .boxed(),
        Template::Extract => (canc, proptest::collection::vec(op.clone(), 0..6), any::<bool>(), any::<bool>(), 0u8..3, sched)
            .prop_map(move |(cancelable, tail, multi, via_tp, cycles, schedule)| {
                let mut t0 = vec![root.clone(), root.clone()];
                if multi {
                    t0.push(Op::Child { parents: vec![40000, 0], np: 0, s: StrSeed { c: 0, l: 1 } });
                }
                t0.push(Op::SetLocalParent { span: 65535, probe: false });
                t0.push(Op::EnterLocal { np: 0, s: StrSeed { c: 0, l: 1 }, probe: false, re: vec![] });
                t0.push(Op::CtxOfLocal);
                t0.push(Op::EnterLocal { np: 0, s: StrSeed { c: 0, l: 2 }, probe: false, re: vec![] });
                t0.push(Op::CtxOfLocal);
                t0.push(Op::CtxOfSpan { span: 65535 });
                t0.push(Op::RootFromCtx { ctx: 65535, via_tp, s: StrSeed { c: 0, l: 3 } });
                t0.push(Op::RootFromCtx { ctx: 20000, via_tp: !via_tp, s: StrSeed { c: 0, l: 3 } });
                t0.push(Op::PopGuard { collect: true, early: false, unwind: false });
                t0.push(Op::CtxOfLocal);
                t0.push(Op::RootFromCtx { ctx: 65535, via_tp, s: StrSeed { c: 0, l: 3 } });
                t0.extend(tail);
                Program { cancelable, threads: vec![t0], cycles, schedule, fine: false, pool: 0, lazy_reg: false, idle_cycles: 0 }
            })
            .boxed(),
        Template::FullThenTrace => (
            canc,
            0u8..2,
            proptest::collection::vec(op.clone(), 0..3),
            proptest::collection::vec(op.clone(), 0..4),
            proptest::collection::vec(op.clone(), 0..5),
            any::<bool>(),
            any::<bool>(),
            2u8..6,
            sched,
        )
            .prop_map(move |(cancelable, leave, pre, mid, other, flush_between, local, cycles, schedule)| {
                let mut t0 = pre;
                t0.retain(|o| !matches!(o, Op::Fill { .. } | Op::Exit));
                t0.push(Op::Fill { leave });
                // the trace starts while the queue is full
                t0.push(root.clone());
                t0.push(Op::Child { parents: vec![65535], np: 0, s: StrSeed { c: 0, l: 1 } });
                if flush_between {
                    t0.push(Op::Flush);
                }
                t0.extend(mid);
                if local {
                    t0.push(Op::SetLocalParent { span: 65535, probe: false });
                    t0.push(Op::EnterLocal { np: 0, s: StrSeed { c: 0, l: 1 }, probe: false, re: vec![] });
                    t0.push(Op::PopGuard { collect: false, early: false, unwind: false });
                    t0.push(Op::PopGuard { collect: false, early: false, unwind: false });
                }
                t0.push(Op::Finish { span: 65535 });
                let mut t1 = vec![Op::Child { parents: vec![65535], np: 0, s: StrSeed { c: 0, l: 1 } }, Op::Finish { span: 65535 }];
                t1.extend(other);
                Program { cancelable, threads: vec![t0, t1], cycles, schedule, fine: false, pool: 0, lazy_reg: false, idle_cycles: 0 }
            })
            .boxed(),
        Template::PoolHandoff => (
            canc,
            prop_oneof![3 => 33u8..41, 2 => 64u8..73, 1 => 128u8..137],
            proptest::collection::vec(
                prop_oneof![
                    3 => (1u8..3, strseed(p.str_classes)).prop_map(|(n, s)| Op::AddProps { handle: Some(0), n, s, re: vec![] }),
                    3 => (0u8..3, strseed(p.str_classes)).prop_map(|(n, s)| Op::AddEvent { handle: Some(0), n, s, re: vec![] }),
                    1 => (0u8..2, strseed(p.str_classes)).prop_map(|(np, s)| Op::Child { parents: vec![0], np, s }),
                    1 => Just(Op::Finish { span: 65535 }),
                ],
                1..5,
            ),
            any::<bool>(),
            proptest::collection::vec(op.clone(), 0..3),
            proptest::collection::vec(op.clone(), 0..3),
        )
            .prop_map(move |(cancelable, pool, attach, via_local, newcomer, tail)| {
                let t0 = {
                    let mut t = vec![root.clone()];
                    t.extend(tail);
                    t.push(Op::Finish { span: 0 });
                    t.push(Op::Flush);
                    t
                };
                let mut t1 = vec![];
                if via_local {
                    t1.push(Op::SetLocalParent { span: 0, probe: false });
                    t1.push(Op::AddEvent { handle: None, n: 1, s: StrSeed { c: 0, l: 1 }, re: vec![] });
                    t1.push(Op::AddProps { handle: None, n: 1, s: StrSeed { c: 0, l: 1 }, re: vec![] });
                    t1.push(Op::PopGuard { collect: false, early: false, unwind: false });
                }
                t1.extend(attach);
                t1.push(Op::Exit);
                let mut t2 = vec![Op::Root { tc: 0, tr: 1, pc: 0, pr: 0, sampled: true, np: 0, s: StrSeed { c: 0, l: 1 } }];
                t2.extend(newcomer);
                // t0 creates the root; t1 runs to its exit; t2 (a new thread) runs; t0 finishes and flushes
                let schedule = vec![(0u8, 1u8), (86, 255), (128, 255)];
                Program { cancelable, threads: vec![t0, t1, t2], cycles: 0, schedule, fine: false, pool, lazy_reg: false, idle_cycles: 0 }
            })
            .boxed(),
        Template::PoolAdapter => (
            canc,
            prop_oneof![3 => 33u8..41, 2 => 64u8..73, 1 => 128u8..137],
            proptest::sample::select(if p.adapter_kinds.is_empty() { vec![AdapterKind::InSpan] } else { p.adapter_kinds.clone() }),
            proptest::collection::vec(poll_script(p), 1..5),
            any::<bool>(),
            any::<bool>(),
            proptest::sample::select(vec![Entry::PollNext, Entry::PollReady, Entry::PollFlush, Entry::PollClose]),
            proptest::collection::vec(op.clone(), 0..3),
            proptest::collection::vec(op.clone(), 0..3),
        )
            .prop_map(move |(cancelable, pool, kind, script, bind_root, drop_it, entry, newcomer, tail)| {
                let polls = script.len();
                let mut t0 = vec![root.clone()];
                if !bind_root {
                    t0.push(Op::Child { parents: vec![0], np: 0, s: StrSeed { c: 0, l: 1 } });
                }
                t0.push(Op::Wrap { kind, span: 65535, s: StrSeed { c: 0, l: 2 }, script });
                t0.push(Op::Drive { a: 0, entry });
                let mut t1 = vec![];
                for _ in 0..polls {
                    t1.push(Op::Drive { a: 0, entry });
                }
                t1.push(if drop_it { Op::DropAdapter { a: 0 } } else { Op::Drive { a: 0, entry: Entry::PollClose } });
                t1.push(Op::Exit);
                let mut t2 = vec![Op::Root { tc: 0, tr: 1, pc: 0, pr: 0, sampled: true, np: 0, s: StrSeed { c: 0, l: 1 } }];
                t2.extend(newcomer);
                let n0 = t0.len() as u8;
                t0.extend(tail);
                if !bind_root {
                    t0.push(Op::Finish { span: 0 });
                }
                t0.push(Op::Flush);
                // t0 up to its first poll; t1 to its exit; t2 (a new thread); t0 finishes and flushes
                let schedule = vec![(0u8, n0), (86, 255), (128, 255)];
                Program { cancelable, threads: vec![t0, t1, t2], cycles: 0, schedule, fine: false, pool, lazy_reg: false, idle_cycles: 0 }
            })
            .boxed(),
        Template::OverloadPush => (canc, 0u8..2, 1usize..4, proptest::collection::vec(op.clone(), 0..3), any::<bool>(), 2u8..6, sched)
            .prop_map(move |(cancelable, leave, nlocal, tail, second_target, cycles, schedule)| {
                let mut t0 = vec![root.clone(), Op::Child { parents: vec![0], np: 0, s: StrSeed { c: 0, l: 1 } }, Op::CollectorStart { probe: false }];
                for _ in 0..nlocal {
                    t0.push(Op::EnterLocal { np: 0, s: StrSeed { c: 0, l: 1 }, probe: false, re: vec![] });
                    t0.push(Op::PopGuard { collect: true, early: false, unwind: false });
                }
                t0.push(Op::PopGuard { collect: true, early: false, unwind: false });
                let target = if second_target { 65535 } else { 0 };
                t0.push(Op::Fill { leave });
                t0.push(Op::PushChildSpans { span: target, set: 0, last: false });
                t0.push(Op::Flush);
                t0.push(Op::PushChildSpans { span: target, set: 0, last: false });
                t0.extend(tail);
                t0.push(Op::Finish { span: 65535 });
                t0.push(Op::Finish { span: 0 });
                t0.push(Op::Flush);
                Program { cancelable, threads: vec![t0], cycles, schedule, fine: false, pool: 0, lazy_reg: false, idle_cycles: 0 }
            })
            .boxed(),
        Template::ScopeFull => (
            canc,
            any::<bool>(),
            0usize..4,
            prop_oneof![3 => 25u16..60, 1 => 0u16..25],
            0u8..3,
            proptest::collection::vec(
                prop_oneof![
                    5 => (0u8..3, strseed(p.str_classes)).prop_map(|(np, s)| Op::EnterLocal { np, s, probe: false, re: vec![] }),
                    3 => Just(Op::PopGuard { collect: true, early: false, unwind: false }),
                    3 => (0u8..3, strseed(p.str_classes)).prop_map(|(n, s)| Op::AddEvent { handle: None, n, s, re: vec![] }),
                    4 => (1u8..3, strseed(p.str_classes)).prop_map(|(n, s)| Op::AddProps { handle: None, n, s, re: vec![] }),
                    1 => (0u8..2, strseed(p.str_classes)).prop_map(|(np, s)| Op::ChildOfLocal { np, s }),
                    1 => Just(Op::CtxOfLocal),
                    2 => (0u16..=p.max_spin_us).prop_map(|us| Op::Spin { us }),
                ],
                1..9,
            ),
            proptest::collection::vec(op.clone(), 0..4),
            0u8..3,
            sched,
        )
            .prop_map(move |(cancelable, collector, open_before, n, kind, during, tail, cycles, schedule)| {
                let mut t0 = vec![root.clone()];
                if collector {
                    t0.push(Op::CollectorStart { probe: false });
                } else {
                    t0.push(Op::SetLocalParent { span: 0, probe: false });
                }
                for i in 0..open_before {
                    t0.push(Op::EnterLocal { np: (i % 2) as u8, s: StrSeed { c: 0, l: 1 }, probe: false, re: vec![] });
                }
                t0.push(Op::Burst { n, kind });
                t0.extend(during);
                t0.extend(tail);
                Program { cancelable, threads: vec![t0], cycles, schedule, fine: false, pool: 0, lazy_reg: false, idle_cycles: 0 }
            })
            .boxed(),
        Template::ParkedBacklog => (canc, proptest::collection::vec(op.clone(), 0..3), proptest::collection::vec(op.clone(), 0..5), 10250u16..10400, 1u8..4, sched)
            .prop_map(move |(cancelable, pre, t1, n, cycles, schedule)| {
                let mut t0 = pre;
                t0.retain(|o| !matches!(o, Op::Fill { .. } | Op::Volley { .. } | Op::Exit));
                t0.push(Op::Fill { leave: 0 });
                t0.push(Op::Volley { n });
                Program { cancelable, threads: vec![t0, t1], cycles, schedule, fine: false, pool: 0, lazy_reg: false, idle_cycles: 0 }
            })
            .boxed(),
        Template::FullExit => (canc, proptest::collection::vec(op.clone(), 0..4), proptest::collection::vec(op.clone(), 0..6), proptest::collection::vec(op.clone(), 0..6), 0u8..2, 1u8..6, sched)
            .prop_map(move |(cancelable, pre, t1, t2, leave, cycles, schedule)| {
                let mut t0 = pre;
                // the generated prefix leaves no unfinished root behind on this vthread's account:
                // whatever it left is finished by the reaper through its own queue
                t0.retain(|o| !matches!(o, Op::Fill { .. } | Op::Volley { .. } | Op::Exit));
                t0.push(Op::Fill { leave });
                t0.push(Op::Exit);
                Program { cancelable, threads: vec![t0, t1, t2], cycles, schedule, fine: false, pool: 0, lazy_reg: false, idle_cycles: 0 }
            })
            .boxed(),
        Template::CrossQueue => (canc, any::<bool>(), proptest::collection::vec(op.clone(), 0..4), proptest::collection::vec(op, 0..4), 1u8..5, sched)
            .prop_map(move |(cancelable, do_cancel, a, b, cycles, schedule)| {
                let mut t0 = vec![root.clone()];
                t0.extend(a);
                let mut t1 = vec![];
                if do_cancel {
                    t1.push(Op::Cancel { span: 0 });
                }
                t1.push(Op::Finish { span: 0 });
                t1.extend(b);
                Program { cancelable, threads: vec![t0, t1], cycles, schedule, fine: false, pool: 0, lazy_reg: false, idle_cycles: 0 }
            })
            .boxed(),
    }
}

pub fn program_strategy(p: &Profile) -> BoxedStrategy<Program> {
    let pool_pct = p.pool_pct;
    let idle_pct = p.idle_pct;
    (program_strategy_inner(p), proptest::bool::weighted(0.3), 0u32..100, prop_oneof![3 => 33u8..41, 2 => 64u8..73, 1 => 128u8..137], proptest::bool::weighted(0.35), 0u32..100, prop_oneof![3 => 6000u32..7000, 1 => 65000u32..70000, 2 => 100u32..1200])
        .prop_map(move |(mut prog, fine, roll, pool, lazy_reg, iroll, idle)| {
            prog.fine = fine;
            prog.lazy_reg = lazy_reg;
            if iroll < idle_pct {
                prog.idle_cycles = idle;
            }
            if roll < pool_pct && prog.pool == 0 {
                prog.pool = pool;
            }
            prog
        })
        .boxed()
}

fn program_strategy_inner(p: &Profile) -> BoxedStrategy<Program> {
    if !p.templates.is_empty() {
        let mut v: Vec<(u32, BoxedStrategy<Program>)> = Vec::new();
        let tw: u32 = p.templates.iter().map(|t| t.0).sum();
        let mut free = p.clone();
        free.templates.clear();
        v.push((10u32.saturating_sub(tw).max(1), program_strategy_inner(&free)));
        for (w, t) in &p.templates {
            v.push((*w, template_strategy(p, *t)));
        }
        return Union::new_weighted(v).boxed();
    }
    let op = op_strategy(p);
    let (t0, t1) = p.threads;
    let (o0, o1) = p.ops;
    let (c0, c1) = p.cycles;
    let (s0, s1) = p.sched_len;
    let canc = match p.cancelable {
        Some(b) => Just(b).boxed(),
        None => any::<bool>().boxed(),
    };
    (
        canc,
        proptest::collection::vec(proptest::collection::vec(op, o0..=o1), t0..=t1),
        c0..=c1,
        proptest::collection::vec((any::<u8>(), 1u8..12), s0..=s1),
    )
        .prop_map(|(cancelable, threads, cycles, schedule)| Program {
            cancelable,
            threads,
            cycles,
            schedule,
            fine: false,
            pool: 0,
            lazy_reg: false,
            idle_cycles: 0,
        })
        .boxed()
}

use fr_core::{bgdeliver, exec, flushrace, narrate, prerace, prog, props, reporterpanic, teardown};

use std::collections::{BTreeMap, HashSet};
use std::io::Write;

use proptest::strategy::ValueTree;
use proptest::test_runner::{Config, RngAlgorithm, TestCaseError, TestError, TestRng, TestRunner};
use serde_json::json;

use fr_core::oracle::Viol;
use fr_core::prog::Program;

fn arg<'a>(args: &'a [String], k: &str) -> Option<&'a str> {
    args.iter().position(|a| a == k).and_then(|i| args.get(i + 1)).map(|s| s.as_str())
}

fn seed_bytes(seed: u64, worker: u64, stream: &str) -> [u8; 32] {
    // splitmix64-based expansion: a pure function of (VERIF_SEED, worker, stream)
    let mut x = seed
        .wrapping_mul(0x9E3779B97F4A7C15)
        .wrapping_add(worker.wrapping_mul(0xBF58476D1CE4E5B9))
        .wrapping_add(stream.bytes().fold(0u64, |a, b| a.wrapping_mul(131).wrapping_add(b as u64)));
    let mut out = [0u8; 32];
    for c in out.chunks_mut(8) {
        x = x.wrapping_add(0x9E3779B97F4A7C15);
        let mut z = x;
        z = (z ^ (z >> 30)).wrapping_mul(0xBF58476D1CE4E5B9);
        z = (z ^ (z >> 27)).wrapping_mul(0x94D049BB133111EB);
        z ^= z >> 31;
        c.copy_from_slice(&z.to_le_bytes());
    }
    out
}

fn quiet_panics() {
    std::panic::set_hook(Box::new(|info| {
        let name = std::thread::current().name().map(|s| s.to_string()).unwrap_or_default();
        if name.starts_with("vt") && std::env::var_os("FR_LOUD_PANICS").is_none() {
            return; // caught and recorded by the interpreter
        }
        eprintln!("panic on thread {:?}: {}", name, info);
    }));
}

struct Acc {
    evaluations: u64,
    nontrivial: HashSet<u64>,
    labels: BTreeMap<String, u64>,
    excluded: BTreeMap<String, u64>,
    known_hits: BTreeMap<String, u64>,
    samples: Vec<serde_json::Value>,
    failed: bool,
    records: u64,
    ops: u64,
    skipped: u64,
}

/// the case being executed, for the hang monitor
static RUNNING: std::sync::Mutex<Option<(std::time::Instant, String)>> = std::sync::Mutex::new(None);
pub const HANG_SECS: u64 = 120;

/// A generated case is a few dozen cheap operations. One that has not completed after HANG_SECS
/// is left behind as `<out>.hang` (a replay file) and the process exits with status 3; the
/// driver decides what that means (for C07: a deadlock, if it reproduces from a fresh process).
fn spawn_hang_monitor(out: String) {
    std::thread::Builder::new()
        .name("hang-monitor".into())
        .spawn(move || loop {
            std::thread::sleep(std::time::Duration::from_millis(500));
            let g = RUNNING.lock().unwrap();
            if let Some((t0, body)) = g.as_ref() {
                if t0.elapsed().as_secs() >= std::env::var("FR_HANG_SECS").ok().and_then(|v| v.parse().ok()).unwrap_or(HANG_SECS) {
                    std::fs::write(format!("{}.hang", out), body).ok();
                    eprintln!("case did not complete within {} s; left {}.hang", HANG_SECS, out);
                    if std::env::var("FR_HANG_KEEP").is_ok() {
                        // debugging aid: keep the process for a debugger
                        drop(g);
                        std::thread::sleep(std::time::Duration::from_secs(3600));
                    }
                    std::process::exit(3);
                }
            }
        })
        .unwrap();
}

fn worker(args: &[String]) -> i32 {
    let prop = arg(args, "--prop").expect("--prop");
    let variant = arg(args, "--variant").unwrap_or("api");
    let seed: u64 = arg(args, "--seed").unwrap_or("0").parse().unwrap();
    let wid: u64 = arg(args, "--worker").unwrap_or("0").parse().unwrap();
    exec::CONFIG_ROUTE.store((wid % 4) as u8, std::sync::atomic::Ordering::SeqCst);
    let cases: u32 = arg(args, "--cases").unwrap_or("100").parse().unwrap();
    let out = arg(args, "--out").expect("--out");
    let cancelable = arg(args, "--cancelable").unwrap_or("false") == "true";
    let thorough = arg(args, "--tier").unwrap_or("quick") == "thorough";
    let known: Vec<String> = arg(args, "--known").map(|k| k.split("||").filter(|s| !s.is_empty()).map(|s| s.to_string()).collect()).unwrap_or_default();
    if variant == "teardown" {
        return teardown_worker(args, prop, seed, wid, cases, out, &known);
    }
    if variant == "reporterpanic" {
        return reporterpanic_worker(seed, wid, cases, out, &known);
    }
    if variant == "flushrace" {
        return flushrace_worker(prop, seed, wid, cases, out, &known);
    }
    if variant == "prerace" {
        return prerace_worker(seed, wid, cases, out, &known);
    }
    if variant == "bgdeliver" || variant == "bgdeliver25" {
        return bgdeliver_worker(prop, variant, seed, wid, cases, out, &known);
    }
    let spec = match props::spec(prop, variant, cancelable, thorough) {
        Some(s) => s,
        None => {
            eprintln!("unknown property/variant {} {}", prop, variant);
            return 2;
        }
    };
    quiet_panics();
    let strategy = prog::program_strategy(&spec.profile);
    let cfg = Config {
        cases,
        failure_persistence: None,
        max_shrink_iters: 4000,
        max_global_rejects: 1,
        ..Config::default()
    };
    let mut runner = TestRunner::new_with_rng(cfg, TestRng::from_seed(RngAlgorithm::ChaCha, &seed_bytes(seed, wid, &format!("{}/{}/{}", prop, variant, cancelable))));
    let acc = std::cell::RefCell::new(Acc {
        evaluations: 0,
        nontrivial: HashSet::new(),
        labels: BTreeMap::new(),
        excluded: BTreeMap::new(),
        known_hits: BTreeMap::new(),
        samples: vec![],
        failed: false,
        records: 0,
        ops: 0,
        skipped: 0,
    });
    let start = std::time::Instant::now();
    let opts = spec.opts.clone();
    spawn_hang_monitor(out.to_string());
    // the last programs executed by this process, and their snapshot at the first failure: a
    // verdict that depends on what the process did before (state the library carries from one
    // trace to the next) does not reproduce from the failing program alone
    let recent: std::cell::RefCell<std::collections::VecDeque<Program>> = std::cell::RefCell::new(std::collections::VecDeque::new());
    let first_fail: std::cell::RefCell<Option<(Vec<Program>, Program)>> = std::cell::RefCell::new(None);
    const HISTORY: usize = 64;
    let result = runner.run(&strategy, |p: Program| {
        *RUNNING.lock().unwrap() = Some((std::time::Instant::now(), json!({"property": prop, "variant": variant, "program": p, "expect": "pass"}).to_string()));
        let h = exec::run_case(&p, &opts);
        *RUNNING.lock().unwrap() = None;
        let mut viols = (spec.oracle)(&h);
        // whatever the property: a collector cycle that panics delivers nothing and takes the
        // caller of flush() (or the background thread) with it
        if spec.id != "C07" {
            for pn in h.panics.iter().filter(|pn| pn.op.starts_with("collector cycle")) {
                viols.push(Viol { prop: spec.id, sig: "collector-cycle-panicked".into(), msg: format!("{} panicked: {}", pn.op, pn.msg) });
            }
        }
        let mut a = acc.borrow_mut();
        if !a.failed {
            let unknown_now = viols.iter().any(|v| !known.iter().any(|k| *k == v.sig));
            if unknown_now {
                *first_fail.borrow_mut() = Some((recent.borrow().iter().cloned().collect(), p.clone()));
            }
            let mut r = recent.borrow_mut();
            if r.len() == HISTORY {
                r.pop_front();
            }
            r.push_back(p.clone());
        }
        let unknown: Vec<&Viol> = viols.iter().filter(|v| !known.iter().any(|k| *k == v.sig)).collect();
        if !a.failed {
            a.evaluations += 1;
            a.records += h.batches.iter().map(|b| b.records.len() as u64).sum::<u64>();
            a.ops += h.executed_ops as u64;
            a.skipped += h.skipped_ops as u64;
            for (k, n) in &h.labels {
                *a.labels.entry(k.to_string()).or_insert(0) += *n as u64;
            }
            for (k, n) in &h.excluded {
                *a.excluded.entry(k.to_string()).or_insert(0) += *n as u64;
            }
            for vv in &viols {
                if known.iter().any(|k| *k == vv.sig) {
                    *a.known_hits.entry(vv.sig.clone()).or_insert(0) += 1;
                }
            }
            if (spec.nontrivial)(&h) {
                let hs = props::shape_hash(&h);
                if a.nontrivial.insert(hs) && a.samples.len() < 3 && h.executed_ops <= 14 {
                    a.samples.push(json!({"program": p, "records_delivered": h.batches.iter().map(|b| b.records.len()).sum::<usize>(), "cycles": h.cycles.len(), "labels": h.labels}));
                }
            }
        }
        if unknown.is_empty() {
            Ok(())
        } else {
            a.failed = true;
            Err(TestCaseError::fail(unknown[0].sig.clone()))
        }
    });
    let a = acc.into_inner();
    let mut failure = serde_json::Value::Null;
    if let Err(e) = &result {
        match e {
            TestError::Fail(reason, p) => {
                // the minimal program is executed again for the report; a verdict that does not
                // show up in three further executions is not a reproducible one (the driver
                // reports it as inconclusive)
                let mut viols = vec![];
                for _ in 0..3 {
                    let h = exec::run_case(p, &opts);
                    viols = (spec.oracle)(&h).into_iter().filter(|v| !known.iter().any(|k| *k == v.sig)).collect();
                    if !viols.is_empty() {
                        break;
                    }
                }
                let mut program = p.clone();
                let mut history: Vec<Program> = vec![];
                if viols.is_empty() {
                    // not reproducible alone: execute the programs that preceded the first failing
                    // case again, the last k of them for growing k, then that case itself
                    if let Some((hist, orig)) = first_fail.borrow().clone() {
                        let mut k = 1usize;
                        'outer: loop {
                            let k_eff = k.min(hist.len());
                            for _ in 0..2 {
                                for hp in &hist[hist.len() - k_eff..] {
                                    let _ = exec::run_case(hp, &opts);
                                }
                                let h = exec::run_case(&orig, &opts);
                                viols = (spec.oracle)(&h).into_iter().filter(|v| !known.iter().any(|k| *k == v.sig)).collect();
                                if !viols.is_empty() {
                                    program = orig.clone();
                                    history = hist[hist.len() - k_eff..].to_vec();
                                    break 'outer;
                                }
                            }
                            if k_eff == hist.len() {
                                break;
                            }
                            k *= 2;
                        }
                    }
                }
                failure = json!({
                    "signature": if history.is_empty() { reason.to_string() } else { viols[0].sig.clone() },
                    "program": program,
                    "history": history,
                    "reproduced": !viols.is_empty(),
                    "violations": viols.iter().map(|v| json!({"sig": v.sig, "msg": format!("{}{}", v.msg, if history.is_empty() { String::new() } else { format!(" [only after the {} programs in `history` were executed by the same process: the verdict depends on state carried over from earlier traces]", history.len()) })})).collect::<Vec<_>>(),
                });
            }
            TestError::Abort(r) => {
                failure = json!({"abort": r.to_string()});
            }
        }
    }
    let mut nt: Vec<u64> = a.nontrivial.iter().cloned().collect();
    nt.sort();
    let res = json!({
        "property": prop, "variant": variant, "cancelable": cancelable, "seed": seed, "worker": wid,
        "evaluations": a.evaluations,
        "nontrivial_hashes": nt.iter().map(|h| format!("{:016x}", h)).collect::<Vec<_>>(),
        "labels": a.labels, "excluded": a.excluded, "known_hits": a.known_hits,
        "samples": a.samples,
        "records_delivered": a.records, "ops_executed": a.ops, "ops_skipped": a.skipped,
        "failure": failure,
        "rule": spec.rule,
        "wall_s": start.elapsed().as_secs_f64(),
    });
    std::fs::File::create(out).unwrap().write_all(serde_json::to_string(&res).unwrap().as_bytes()).unwrap();
    0
}

/// the overlapping-flush harness serves three properties; each looks at its own verdicts
fn flushrace_filter(prop: &str) -> impl Fn(&String) -> bool {
    let p = prop.to_string();
    move |m: &String| match p.as_str() {
        "C07" => m.starts_with("BLOCKED"),
        "C08" => m.starts_with("RETAINED"),
        "C03" => m.starts_with("INCOMPLETE") || m.starts_with("span "),
        "C04" => m.starts_with("CANCELLED-DELIVERED"),
        "C09" => m.starts_with("FULL-LOST"),
        _ => !m.starts_with("BLOCKED") && !m.starts_with("RETAINED") && !m.starts_with("INCOMPLETE") && !m.starts_with("CANCELLED-DELIVERED") && !m.starts_with("FULL-LOST"),
    }
}
fn flushrace_sig(prop: &str) -> &'static str {
    match prop {
        "C07" => "blocked-on-collector:first-call-during-report",
        "C08" => "retained-after-overlapping-flushes",
        "C03" => "flush-overlap:trace-incomplete",
        "C04" => "flush-overlap:cancelled-trace-delivered",
        "C09" => "full-queue:finish-signal-lost-at-flush",
        _ => "flush-overlap:not-delivered-by-flush",
    }
}

fn flushrace_worker(prop: &str, seed: u64, wid: u64, cases: u32, out: &str, known: &[String]) -> i32 {
    // C01 looks at delivery by flush(), C07 at tracing calls blocking on the collector
    let want_blocked = prop == "C07";
    let keep = flushrace_filter(prop);
    quiet_panics();
    flushrace::install_with(prop == "C03" || prop == "C04");
    let strategy = flushrace::strategy();
    // a blocked call costs its whole deadline on every execution: hardly any shrinking for C07
    let cfg = Config { cases, failure_persistence: None, max_shrink_iters: if want_blocked { 3 } else { 60 }, ..Config::default() };
    let mut runner = TestRunner::new_with_rng(cfg, TestRng::from_seed(RngAlgorithm::ChaCha, &seed_bytes(seed, wid, "flushrace")));
    let start = std::time::Instant::now();
    let st = std::cell::RefCell::new((0u64, HashSet::<u64>::new(), Vec::<serde_json::Value>::new(), false, 0u64));
    let sig = flushrace_sig(prop).to_string();
    let res = runner.run(&strategy, |c| {
        let r = flushrace::run(&c);
        let mut s = st.borrow_mut();
        let fails = match r {
            Ok(f) => {
                let mut f: Vec<String> = f.into_iter().filter(|m| keep(m)).collect();
                if want_blocked && !f.is_empty() {
                    // a time-out is only believed when it reproduces three times out of three
                    for _ in 0..2 {
                        let again: Vec<String> = flushrace::run(&c).unwrap_or_default().into_iter().filter(|m| m.starts_with("BLOCKED")).collect();
                        if again.is_empty() {
                            f.clear();
                            s.4 += 1;
                            break;
                        }
                    }
                }
                f
            }
            Err(_) => {
                s.4 += 1;
                vec![]
            }
        };
        if !s.3 {
            s.0 += 1;
            use std::hash::{Hash, Hasher};
            let mut h = std::collections::hash_map::DefaultHasher::new();
            format!("{:?}", c).hash(&mut h);
            if s.1.insert(h.finish()) && s.2.len() < 3 {
                s.2.push(serde_json::to_value(&c).unwrap());
            }
        }
        if fails.is_empty() || known.contains(&sig) {
            Ok(())
        } else {
            s.3 = true;
            Err(TestCaseError::fail(sig.clone()))
        }
    });
    let s = st.into_inner();
    let mut failure = serde_json::Value::Null;
    if let Err(TestError::Fail(reason, c)) = &res {
        let fails: Vec<String> = flushrace::run(c).unwrap_or_default().into_iter().filter(|m| keep(m)).collect();
        let sig_of = |f: &String| if f.starts_with("BLOCKED-FLUSH") { "blocked:flush-does-not-return".to_string() } else if f.contains("started together") { "simultaneous-start:not-delivered-by-flush".to_string() } else { sig.clone() };
        failure = json!({"signature": fails.first().map(sig_of).unwrap_or(reason.to_string()), "program": c, "violations": fails.iter().map(|f| json!({"sig": sig_of(f), "msg": f})).collect::<Vec<_>>()});
    }
    let mut nt: Vec<u64> = s.1.iter().cloned().collect();
    nt.sort();
    let res = json!({
        "property": prop, "variant": "flushrace", "cancelable": false, "seed": seed, "worker": wid,
        "evaluations": s.0, "nontrivial_hashes": nt.iter().map(|h| format!("{:016x}", h)).collect::<Vec<_>>(),
        "labels": {"overlapping_flush_case": s.0, "overlap_setup_failed": s.4}, "excluded": {}, "known_hits": {}, "samples": s.2,
        "records_delivered": 0, "ops_executed": 0, "ops_skipped": 0, "failure": failure,
        "rule": "overlapping flush() calls: the reporter parks the first flush's cycle inside report(); meanwhile 1-3 threads finish generated spans (roots, handed-off children, local scopes) and call flush(); the gate opens a generated delay after they entered; oracle: everything a thread finished before its flush() call is reported when that call returns; sub-cases: a thread with a completely full queue that calls flush() itself, and 2-32 brand-new threads released at the same instant (spin flag) whose spans a flush() called after they all finished must report; every case is non-trivial (the overlap is constructed); distinct = hash of the case",
        "wall_s": start.elapsed().as_secs_f64(),
    });
    std::fs::File::create(out).unwrap().write_all(serde_json::to_string(&res).unwrap().as_bytes()).unwrap();
    0
}

/// a timing verdict is believed only when it reproduces three times out of three
fn bg_run_believed(c: &bgdeliver::BgCase, flickers: &mut u64) -> bgdeliver::BgOutcome {
    let o = bgdeliver::run(c);
    if o.violations.is_empty() {
        return o;
    }
    // a record that is still missing although the collector completed dozens of cycles after
    // its span finished is lost for good, whatever the scheduler did: no second opinion needed
    if o.cycles_while_waiting >= 50 && o.violations.iter().all(|(s, _)| s == "no-flush:not-delivered") {
        return o;
    }
    for _ in 0..2 {
        let again = bgdeliver::run(c);
        if again.violations.is_empty() {
            *flickers += 1;
            return again;
        }
    }
    o
}

fn bgdeliver_worker(prop: &str, variant: &str, seed: u64, wid: u64, cases: u32, out: &str, known: &[String]) -> i32 {
    quiet_panics();
    let interval_ms = if variant == "bgdeliver25" { 25 } else { 0 };
    bgdeliver::install(interval_ms);
    let strategy = bgdeliver::strategy_for(prop);
    let cfg = Config { cases, failure_persistence: None, max_shrink_iters: if prop == "C07" { 2 } else { 40 }, ..Config::default() };
    let mut runner = TestRunner::new_with_rng(cfg, TestRng::from_seed(RngAlgorithm::ChaCha, &seed_bytes(seed, wid, variant)));
    let start = std::time::Instant::now();
    // evaluations, hashes, samples, failed, flickers, latencies, exits, expected
    let st = std::cell::RefCell::new((0u64, HashSet::<u64>::new(), Vec::<serde_json::Value>::new(), false, 0u64, Vec::<u64>::new(), 0u64, 0u64));
    let res = runner.run(&strategy, |c| {
        let mut s = st.borrow_mut();
        let mut fl = 0;
        let o = bg_run_believed(&c, &mut fl);
        s.4 += fl;
        if !s.3 {
            s.0 += 1;
            s.5.extend(o.latencies_ns.iter().cloned());
            s.6 += o.exits as u64;
            s.7 += o.expected as u64;
            use std::hash::{Hash, Hasher};
            let mut h = std::collections::hash_map::DefaultHasher::new();
            format!("{:?}", c).hash(&mut h);
            if s.1.insert(h.finish()) && s.2.len() < 3 {
                s.2.push(serde_json::to_value(&c).unwrap());
            }
        }
        // C07 is about calls returning, not about what is delivered when
        match o.violations.iter().find(|(sig, _)| !known.contains(sig) && (prop != "C07" || sig.starts_with("blocked:"))) {
            None => Ok(()),
            Some((sig, _)) => {
                s.3 = true;
                Err(TestCaseError::fail(sig.clone()))
            }
        }
    });
    let mut s = st.into_inner();
    let mut failure = serde_json::Value::Null;
    if let Err(TestError::Fail(reason, c)) = &res {
        let o = bgdeliver::run(c);
        failure = json!({"signature": reason.to_string(), "program": c, "violations": o.violations.iter().map(|(sig, m)| json!({"sig": sig, "msg": m})).collect::<Vec<_>>()});
    }
    let mut nt: Vec<u64> = s.1.iter().cloned().collect();
    nt.sort();
    s.5.sort();
    let pct = |q: f64| -> u64 { if s.5.is_empty() { 0 } else { s.5[((s.5.len() - 1) as f64 * q) as usize] / 1000 } };
    // "within about one report interval", judged over the whole run: a span finishes at a random
    // point of the collector's sleep, so the median wait is about half an interval (0.6-0.7 measured
    // here under full load). A median above 2.5 intervals together with a lower quartile above 1.5
    // intervals, over hundreds of records, is not a scheduling artefact (it means the collector
    // cycles less than once per five intervals). The replay regenerates this worker's cases and measures again.
    let interval_us = if interval_ms == 0 { 10_000 } else { interval_ms * 1000 };
    if failure.is_null() && s.5.len() >= 200 && pct(0.5) * 2 > 5 * interval_us && pct(0.25) * 2 > 3 * interval_us {
        failure = json!({
            "signature": "no-flush:median-latency-above-2.5-intervals",
            "program": {"bulk": {"seed": seed, "worker": wid, "cases": cases}},
            "violations": [{"sig": "no-flush:median-latency-above-2.5-intervals", "msg": format!("over {} records of {} cases the median time from a span's finish to its report was {} us (p99 {} us); the report interval is {} us and nobody called flush()", s.5.len(), s.0, pct(0.5), pct(0.99), interval_us)}],
        });
    }
    let res = json!({
        "property": prop, "variant": variant, "cancelable": false, "seed": seed, "worker": wid,
        "evaluations": s.0, "nontrivial_hashes": nt.iter().map(|h| format!("{:016x}", h)).collect::<Vec<_>>(),
        "labels": {"no_flush_case": s.0, "no_flush_records_expected": s.7, "no_flush_threads_exiting_after_finish": s.6,
                   "no_flush_verdict_not_reproduced": s.4,
                   format!("no_flush_latency_us_p50_{}", variant): pct(0.5), format!("no_flush_latency_us_p99_{}", variant): pct(0.99), format!("no_flush_latency_us_max_{}", variant): pct(1.0)},
        "excluded": {}, "known_hits": {}, "samples": s.2,
        "records_delivered": s.5.len(), "ops_executed": 0, "ops_skipped": 0, "failure": failure,
        "rule": "no further call needed: real set_reporter (Config::default(), or report_interval 25 ms), real background collector thread, 1-8 plain OS threads with staggered starts finish generated spans (whole traces, handed-off children, two-parent spans, local scopes, backlogs of thousands of commands; in_span futures created on the main thread and completed on the new thread as its first tracing activity - always for C13) with generated pauses, half of them exit directly after their last finish, a fifth of the cases beside a pool of 32-47 registered threads; nobody calls flush(); oracle: every finished span is reported (once per parent) within 5 s (believed only when reproduced 3 of 3), never twice, nothing unknown; every case is non-trivial (>=1 span finished without a later call); distinct = hash of the case; latencies finish->report are reported as labels (microseconds), not judged; as a C07 job: in half of the cases the reporter itself uses the tracing API inside report(), and after the records arrived a thread calls flush(), which has to return within 8 s (only that verdict counts for C07)",
        "wall_s": start.elapsed().as_secs_f64(),
    });
    std::fs::File::create(out).unwrap().write_all(serde_json::to_string(&res).unwrap().as_bytes()).unwrap();
    0
}

fn prerace_sig(m: &str) -> String {
    format!("before-reporter-race:{}", m.split(':').next().unwrap_or(""))
}

fn prerace_worker(seed: u64, wid: u64, cases: u32, out: &str, known: &[String]) -> i32 {
    quiet_panics();
    let strategy = prerace::strategy();
    let cfg = Config { cases, failure_persistence: None, max_shrink_iters: 30, ..Config::default() };
    let mut runner = TestRunner::new_with_rng(cfg, TestRng::from_seed(RngAlgorithm::ChaCha, &seed_bytes(seed, wid, "prerace")));
    let start = std::time::Instant::now();
    let st = std::cell::RefCell::new((0u64, HashSet::<u64>::new(), Vec::<serde_json::Value>::new(), false, 0u64));
    let res = runner.run(&strategy, |c| {
        let fails: Vec<String> = prerace::run(&c).into_iter().filter(|m| !known.contains(&prerace_sig(m))).collect();
        let mut s = st.borrow_mut();
        if !s.3 {
            s.0 += 1;
            s.4 += c.iters as u64 * c.root_threads as u64;
            if c.root_threads as u32 + c.flushers as u32 >= 2 {
                use std::hash::{Hash, Hasher};
                let mut h = std::collections::hash_map::DefaultHasher::new();
                format!("{:?}", c).hash(&mut h);
                if s.1.insert(h.finish()) && s.2.len() < 3 {
                    s.2.push(serde_json::to_value(&c).unwrap());
                }
            }
        }
        if fails.is_empty() {
            Ok(())
        } else {
            s.3 = true;
            Err(TestCaseError::fail(prerace_sig(&fails[0])))
        }
    });
    let s = st.into_inner();
    let mut failure = serde_json::Value::Null;
    if let Err(TestError::Fail(reason, c)) = &res {
        let fails = prerace::run(c);
        failure = json!({"signature": reason.to_string(), "program": c, "violations": fails.iter().map(|f| json!({"sig": prerace_sig(f), "msg": f})).collect::<Vec<_>>()});
    } else {
        // the phase ends: the process installs a reporter
        let fails: Vec<String> = prerace::install_and_check().into_iter().filter(|m| !known.contains(&prerace_sig(m))).collect();
        if !fails.is_empty() {
            failure = json!({"signature": prerace_sig(&fails[0]), "program": {"root_threads": 4, "flushers": 2, "iters": 60000, "derive": 1}, "violations": fails.iter().map(|f| json!({"sig": prerace_sig(f), "msg": f})).collect::<Vec<_>>()});
        }
    }
    let mut nt: Vec<u64> = s.1.iter().cloned().collect();
    nt.sort();
    let res = json!({
        "property": "C16", "variant": "prerace", "cancelable": false, "seed": seed, "worker": wid,
        "evaluations": s.0, "nontrivial_hashes": nt.iter().map(|h| format!("{:016x}", h)).collect::<Vec<_>>(),
        "labels": {"before_reporter_race_case": s.0, "before_reporter_roots_created": s.4}, "excluded": {}, "known_hits": {}, "samples": s.2,
        "records_delivered": 0, "ops_executed": 0, "ops_skipped": 0, "failure": failure,
        "rule": "the phase of a process before any reporter is installed, with real parallelism: 1-4 OS threads released at the same instant create 5000-60000 roots each (with property closures; a child or a local scope derived from each) while 0-2 threads call flush() in a loop; oracle (exact, schedule-independent): no span has a context or an elapsed time, no closure is invoked, and when the worker finally installs a reporter nothing of that phase is delivered; non-trivial = at least two threads; distinct = hash of the case",
        "wall_s": start.elapsed().as_secs_f64(),
    });
    std::fs::File::create(out).unwrap().write_all(serde_json::to_string(&res).unwrap().as_bytes()).unwrap();
    0
}

/// C08 over thread-local teardown (hooked build): after the case's thread was joined and two
/// cycles have run, the collector's counters are read. Only the shapes listed here are verdicts.
fn teardown_retained(c: &teardown::TdCase) -> Vec<String> {
    #[allow(unused_mut)]
    let mut out = vec![];
    #[cfg(fastrace_verif)]
    {
        // what earlier cases of this process left behind (a listed finding) is not this case's
        fastrace::flush();
        let st0 = fastrace::verif::collector_stats();
        teardown::run(c);
        fastrace::flush();
        fastrace::flush();
        let mut st = fastrace::verif::collector_stats();
        st.active_collectors = st.active_collectors.saturating_sub(st0.active_collectors);
        st.buffered_span_sets = st.buffered_span_sets.saturating_sub(st0.buffered_span_sets);
        st.danglings = st.danglings.saturating_sub(st0.danglings);
        st.registered_receivers = st.registered_receivers.saturating_sub(st0.registered_receivers);
        if st.registered_receivers != 0 {
            out.push(format!("receivers-after-teardown: the case's thread has exited and two cycles have run, but {} command queue(s) are still registered ({:?})", st.registered_receivers, st));
        }
        if st.active_collectors != 0 || st.buffered_span_sets != 0 || st.danglings != 0 {
            // structural predicate of the listed finding: the user's thread-local was registered
            // before the library's (so it is destroyed after the thread's command sender) and a
            // root created by the body is still alive when the body ends: its finish (or cancel)
            // signal is issued when the sender no longer exists
            let mut stack: Vec<bool> = vec![];
            for op in &c.body {
                match op {
                    teardown::TdOp::Root => stack.push(true),
                    teardown::TdOp::ChildOfStash if !stack.is_empty() => stack.push(false),
                    teardown::TdOp::ChildOfLocal => stack.push(false),
                    teardown::TdOp::DropStashedSpan => {
                        stack.pop();
                    }
                    _ => {}
                }
            }
            let shape = if c.user_tls_first && stack.iter().any(|r| *r) { ":root-finished-after-sender-destroyed" } else { "" };
            out.push(format!("trace-state-after-teardown{}: every span of the case was dropped by the end of the thread's teardown and two cycles have run, but the collector still holds {:?} more than before the case (user thread-local registered {} the library's)", shape, st, if c.user_tls_first { "before" } else { "after" }));
        }
    }
    out
}

fn teardown_worker(args: &[String], prop: &str, seed: u64, wid: u64, cases: u32, out: &str, known: &[String]) -> i32 {
    let _ = args;
    let c08 = prop == "C08";
    quiet_panics();
    exec::ensure_reporter_api(false);
    let strategy = teardown::strategy();
    let cfg = Config { cases, failure_persistence: None, max_shrink_iters: 2000, ..Config::default() };
    let mut runner = TestRunner::new_with_rng(cfg, TestRng::from_seed(RngAlgorithm::ChaCha, &seed_bytes(seed, wid, "teardown")));
    let progress = format!("{}.progress", out);
    let start = std::time::Instant::now();
    let st = std::cell::RefCell::new((0u64, HashSet::<u64>::new(), Vec::<serde_json::Value>::new(), false));
    let res = runner.run(&strategy, |c| {
        // a crash (abort) kills the process: leave the case behind for the driver
        std::fs::write(&progress, serde_json::to_string(&json!({"property": prop, "variant": "teardown", "target": if c08 { "hooked" } else { "plain" }, "program": c, "expect": "pass"})).unwrap()).ok();
        // C08: panics are C07's business; here only what the collector retains counts
        let fails = if c08 { teardown_retained(&c) } else { teardown::run(&c) };
        let sigs: Vec<String> = fails.iter().map(|f| teardown_sig(c08, f)).collect();
        let unknown: Vec<&String> = sigs.iter().filter(|s| !known.contains(s)).collect();
        let mut s = st.borrow_mut();
        if !s.3 {
            s.0 += 1;
            if !c.dtor.is_empty() {
                use std::hash::{Hash, Hasher};
                let mut h = std::collections::hash_map::DefaultHasher::new();
                format!("{:?}", c).hash(&mut h);
                if s.1.insert(h.finish()) && s.2.len() < 3 {
                    s.2.push(serde_json::to_value(&c).unwrap());
                }
            }
        }
        if unknown.is_empty() {
            Ok(())
        } else {
            s.3 = true;
            Err(TestCaseError::fail(unknown[0].clone()))
        }
    });
    std::fs::remove_file(&progress).ok();
    let s = st.into_inner();
    let mut failure = serde_json::Value::Null;
    if let Err(TestError::Fail(reason, c)) = &res {
        let fails = if c08 { teardown_retained(c) } else { teardown::run(c) };
        failure = json!({"signature": reason.to_string(), "program": c, "violations": fails.iter().map(|f| json!({"sig": reason.to_string(), "msg": f})).collect::<Vec<_>>()});
    }
    let mut nt: Vec<u64> = s.1.iter().cloned().collect();
    nt.sort();
    let res = json!({
        "property": prop, "variant": "teardown", "cancelable": false, "seed": seed, "worker": wid,
        "evaluations": s.0, "nontrivial_hashes": nt.iter().map(|h| format!("{:016x}", h)).collect::<Vec<_>>(),
        "labels": {"teardown_case": s.0}, "excluded": {}, "known_hits": {}, "samples": s.2,
        "records_delivered": 0, "ops_executed": 0, "ops_skipped": 0, "failure": failure,
        "rule": "thread-local teardown: a user thread-local (registered before or after the library's) whose destructor runs a generated tracing call sequence and drops stashed spans/guards, on a fresh OS thread per case; non-trivial = the destructor runs >=1 tracing call; distinct = hash of the case",
        "wall_s": start.elapsed().as_secs_f64(),
    });
    std::fs::File::create(out).unwrap().write_all(serde_json::to_string(&res).unwrap().as_bytes()).unwrap();
    0
}

fn rp_sig(f: &str) -> String {
    format!("panic-after-reporter-failure:{}", f.split(':').next().unwrap_or("").trim())
}

fn reporterpanic_worker(seed: u64, wid: u64, cases: u32, out: &str, known: &[String]) -> i32 {
    quiet_panics();
    let strategy = reporterpanic::strategy();
    let cfg = Config { cases, failure_persistence: None, max_shrink_iters: 60, ..Config::default() };
    let mut runner = TestRunner::new_with_rng(cfg, TestRng::from_seed(RngAlgorithm::ChaCha, &seed_bytes(seed, wid, "reporterpanic")));
    let start = std::time::Instant::now();
    let st = std::cell::RefCell::new((0u64, HashSet::<u64>::new(), Vec::<serde_json::Value>::new(), false));
    let res = runner.run(&strategy, |c| {
        let fails = reporterpanic::run(&c);
        let sigs: Vec<String> = fails.iter().map(|f| rp_sig(f)).collect();
        let mut s = st.borrow_mut();
        if !s.3 {
            s.0 += 1;
            use std::hash::{Hash, Hasher};
            let mut h = std::collections::hash_map::DefaultHasher::new();
            format!("{:?}", c).hash(&mut h);
            if s.1.insert(h.finish()) && s.2.len() < 3 {
                s.2.push(serde_json::to_value(&c).unwrap());
            }
        }
        match sigs.iter().find(|s| !known.contains(s)) {
            None => Ok(()),
            Some(sig) => {
                s.3 = true;
                Err(TestCaseError::fail(sig.clone()))
            }
        }
    });
    let s = st.into_inner();
    let mut failure = serde_json::Value::Null;
    if let Err(TestError::Fail(reason, c)) = &res {
        let fails = reporterpanic::run(c);
        failure = json!({"signature": reason.to_string(), "program": c, "violations": fails.iter().map(|f| json!({"sig": rp_sig(f), "msg": f})).collect::<Vec<_>>()});
    }
    let mut nt: Vec<u64> = s.1.iter().cloned().collect();
    nt.sort();
    let res = json!({
        "property": "C07", "variant": "reporterpanic", "cancelable": false, "seed": seed, "worker": wid,
        "evaluations": s.0, "nontrivial_hashes": nt.iter().map(|h| format!("{:016x}", h)).collect::<Vec<_>>(),
        "labels": {"reporter_failed_on_background_thread_case": s.0}, "excluded": {}, "known_hits": {}, "samples": s.2,
        "records_delivered": 0, "ops_executed": 0, "ops_skipped": 0, "failure": failure,
        "rule": "reporter state 'failed': a reporter installed with the real set_reporter (2 ms interval, either configuration) panics in its 1st-3rd report() call on the library's background thread; afterwards the host issues 1-7 generated calls (flush, set_reporter of a working reporter, roots with local scopes and children, cancel), each of which has to return without panicking; every case is non-trivial; distinct = hash of the case",
        "wall_s": start.elapsed().as_secs_f64(),
    });
    std::fs::File::create(out).unwrap().write_all(serde_json::to_string(&res).unwrap().as_bytes()).unwrap();
    0
}

fn teardown_sig(c08: bool, f: &str) -> String {
    if c08 {
        f.split(": ").next().unwrap_or("").to_string()
    } else {
        format!("teardown-panic:{}", f.split(':').take(2).collect::<Vec<_>>().join(":"))
    }
}

fn replay(args: &[String]) -> i32 {
    let file = arg(args, "--file").expect("--file");
    let txt = std::fs::read_to_string(file).expect("read replay");
    let v: serde_json::Value = serde_json::from_str(&txt).expect("json");
    if let Some(hex) = v.get("bytes_hex").and_then(|h| h.as_str()) {
        // a libFuzzer input of the sched_prog target (hooked build only)
        quiet_panics();
        let bytes: Vec<u8> = (0..hex.len() / 2).map(|i| u8::from_str_radix(&hex[2 * i..2 * i + 2], 16).unwrap()).collect();
        let (p, h, viols) = fr_core::fuzzdec::check_bytes(&bytes);
        println!("{}", serde_json::to_string_pretty(&json!({
            "violations": viols.iter().map(|v| json!({"sig": v.sig, "msg": v.msg, "prop": v.prop})).collect::<Vec<_>>(),
            "program": p, "narrative": narrate::narrate(&h)})).unwrap());
        return if viols.is_empty() { 0 } else { 1 };
    }
    if v["variant"].as_str() == Some("flushrace") {
        quiet_panics();
        flushrace::install_with(matches!(v["property"].as_str(), Some("C03") | Some("C04")));
        let c: flushrace::FrCase = serde_json::from_value(v["program"].clone()).expect("flushrace case");
        // schedule-dependent towards missing only: try a few times
        let rp = v["property"].as_str().unwrap_or("C01").to_string();
        let keep = flushrace_filter(&rp);
        let sig = flushrace_sig(&rp);
        let mut fails = vec![];
        for _ in 0..5 {
            fails = flushrace::run(&c).unwrap_or_default().into_iter().filter(|m| keep(m)).collect::<Vec<_>>();
            if !fails.is_empty() {
                break;
            }
        }
        println!("{}", serde_json::to_string_pretty(&json!({"violations": fails.iter().map(|f| json!({"sig": if f.starts_with("BLOCKED-FLUSH") { "blocked:flush-does-not-return" } else if f.contains("started together") { "simultaneous-start:not-delivered-by-flush" } else { sig }, "msg": f})).collect::<Vec<_>>(), "narrative": []})).unwrap());
        return if fails.is_empty() { 0 } else { 1 };
    }
    if v["variant"].as_str().map_or(false, |s| s.starts_with("bgdeliver")) {
        quiet_panics();
        bgdeliver::install(if v["variant"].as_str() == Some("bgdeliver25") { 25 } else { 0 });
        if let Some(b) = v["program"].get("bulk") {
            // an aggregate verdict: regenerate the worker's cases and measure the median again
            let interval_us: u64 = if v["variant"].as_str() == Some("bgdeliver25") { 25_000 } else { 10_000 };
            let (seed, wid, cases) = (b["seed"].as_u64().unwrap_or(0), b["worker"].as_u64().unwrap_or(0), b["cases"].as_u64().unwrap_or(100) as u32);
            let prop = v["property"].as_str().unwrap_or("C01");
            let variant = v["variant"].as_str().unwrap_or("bgdeliver");
            let strategy = bgdeliver::strategy_for(prop);
            let cfg = Config { cases: cases.min(120), failure_persistence: None, ..Config::default() };
            let mut runner = TestRunner::new_with_rng(cfg, TestRng::from_seed(RngAlgorithm::ChaCha, &seed_bytes(seed, wid, variant)));
            let lat = std::cell::RefCell::new(Vec::<u64>::new());
            let _ = runner.run(&strategy, |c| {
                lat.borrow_mut().extend(bgdeliver::run(&c).latencies_ns);
                Ok(())
            });
            let mut l = lat.into_inner();
            l.sort();
            let p50 = if l.is_empty() { 0 } else { l[(l.len() - 1) / 2] / 1000 };
            let p25 = if l.is_empty() { 0 } else { l[(l.len() - 1) / 4] / 1000 };
            let bad = l.len() >= 100 && p50 * 2 > 5 * interval_us && p25 * 2 > 3 * interval_us;
            println!("{}", serde_json::to_string_pretty(&json!({"violations": if bad { vec![json!({"sig": "no-flush:median-latency-above-2.5-intervals", "msg": format!("median finish-to-report latency {} us over {} records, interval {} us", p50, l.len(), interval_us)})] } else { vec![] },
                "narrative": [format!("median {} us over {} records", p50, l.len())]})).unwrap());
            return if bad { 1 } else { 0 };
        }
        let c: bgdeliver::BgCase = serde_json::from_value(v["program"].clone()).expect("bgdeliver case");
        let mut fl = 0;
        let o = bg_run_believed(&c, &mut fl);
        println!("{}", serde_json::to_string_pretty(&json!({"violations": o.violations.iter().map(|(sig, m)| json!({"sig": sig, "msg": m})).collect::<Vec<_>>(),
            "narrative": [format!("{} records expected, latencies (us): {:?}", o.expected, o.latencies_ns.iter().map(|n| n / 1000).collect::<Vec<_>>())]})).unwrap());
        return if o.violations.is_empty() { 0 } else { 1 };
    }
    if v["variant"].as_str() == Some("prerace") {
        quiet_panics();
        let c: prerace::PreCase = serde_json::from_value(v["program"].clone()).expect("prerace case");
        let mut fails = vec![];
        // a race: the case is repeated (a fresh process has the whole phase before it)
        for _ in 0..20 {
            fails = prerace::run(&c);
            if !fails.is_empty() {
                break;
            }
        }
        if fails.is_empty() {
            fails = prerace::install_and_check();
        }
        println!("{}", serde_json::to_string_pretty(&json!({"violations": fails.iter().map(|f| json!({"sig": prerace_sig(f), "msg": f})).collect::<Vec<_>>(), "narrative": []})).unwrap());
        return if fails.is_empty() { 0 } else { 1 };
    }
    if v["variant"].as_str() == Some("reporterpanic") {
        quiet_panics();
        let c: reporterpanic::RpCase = serde_json::from_value(v["program"].clone()).expect("reporterpanic case");
        let fails = reporterpanic::run(&c);
        println!("{}", serde_json::to_string_pretty(&json!({"violations": fails.iter().map(|f| json!({"sig": rp_sig(f), "msg": f})).collect::<Vec<_>>(), "narrative": []})).unwrap());
        return if fails.is_empty() { 0 } else { 1 };
    }
    if v["variant"].as_str() == Some("teardown") {
        quiet_panics();
        exec::ensure_reporter_api(false);
        let c: teardown::TdCase = serde_json::from_value(v["program"].clone()).expect("teardown case");
        let c08 = v["property"].as_str() == Some("C08");
        let fails = if c08 { teardown_retained(&c) } else { teardown::run(&c) };
        println!("{}", serde_json::to_string_pretty(&json!({"violations": fails.iter().map(|f| json!({"sig": teardown_sig(c08, f), "msg": f})).collect::<Vec<_>>(), "narrative": []})).unwrap());
        return if fails.is_empty() { 0 } else { 1 };
    }
    let prop = v["property"].as_str().unwrap();
    let variant = v["variant"].as_str().unwrap_or("api");
    let pv = if v["program"].is_null() { v["failure"]["program"].clone() } else { v["program"].clone() };
    let p: Program = serde_json::from_value(pv).expect("program");
    let spec = props::spec(prop, variant, p.cancelable, false).expect("spec");
    quiet_panics();
    if std::thread::available_parallelism().is_ok() && variant == "disabled" {
        // nothing special: the disabled build simply has no recording paths
    }
    let mut opts = spec.opts.clone();
    if arg(args, "--strict").is_some() {
        opts.exclude.clear();
        opts.strict = true;
    }
    if let Some(hist) = v.get("history").and_then(|h| h.as_array()) {
        for hp in hist {
            let hp: Program = serde_json::from_value(hp.clone()).expect("history program");
            let _ = exec::run_case(&hp, &opts);
        }
    }
    let h = exec::run_case(&p, &opts);
    let viols = (spec.oracle)(&h);
    let out = json!({
        "violations": viols.iter().map(|v| json!({"sig": v.sig, "msg": v.msg})).collect::<Vec<_>>(),
        "records": h.batches.iter().map(|b| b.records.iter().map(|r| format!("{} trace={:x} id={:x} parent={:x} props={} events={}", r.name, r.trace_id.0, r.span_id.0, r.parent_id.0, r.properties.len(), r.events.len())).collect::<Vec<_>>()).collect::<Vec<_>>(),
        "panics": h.panics.iter().map(|p| format!("{}: {}", p.op, p.msg)).collect::<Vec<_>>(),
        "narrative": narrate::narrate(&h),
        "excluded": h.excluded,
    });
    println!("{}", serde_json::to_string_pretty(&out).unwrap());
    if viols.is_empty() {
        0
    } else {
        1
    }
}

fn gen_sample(args: &[String]) -> i32 {
    // print a few generated programs (debugging aid)
    let prop = arg(args, "--prop").expect("--prop");
    let variant = arg(args, "--variant").unwrap_or("api");
    let spec = props::spec(prop, variant, false, false).expect("spec");
    let strategy = prog::program_strategy(&spec.profile);
    let mut runner = TestRunner::new_with_rng(Config::default(), TestRng::from_seed(RngAlgorithm::ChaCha, &seed_bytes(1, 0, "sample")));
    for _ in 0..3 {
        let t = proptest::strategy::Strategy::new_tree(&strategy, &mut runner).unwrap();
        println!("{}", serde_json::to_string(&t.current()).unwrap());
    }
    0
}

fn main() {
    let args: Vec<String> = std::env::args().collect();
    let code = match args.get(1).map(|s| s.as_str()) {
        Some("worker") => worker(&args),
        Some("replay") => replay(&args),
        Some("sample") => gen_sample(&args),
        _ => {
            eprintln!("usage: fr-core worker|replay|sample ...");
            2
        }
    };
    std::process::exit(code);
}

fn main(){}

//! Human-readable account of an executed case (for replay output and triage).
use crate::world::*;

pub fn narrate(h: &Hist) -> Vec<String> {
    let mut ev: Vec<(T, String)> = Vec::new();
    for (i, s) in h.spans.iter().enumerate() {
        let items: Vec<String> = s
            .items
            .iter()
            .map(|it| format!("[trace {:x} parent {:?} unit {} {}]", it.trace, it.parent, it.unit, if it.sampled { "S" } else { "u" }))
            .collect();
        ev.push((
            s.create_t.0,
            format!("vt{} create span#{} {} {:?}{} {}", s.create_vt, i, s.how, s.name, if s.noop { " NOOP" } else { "" }, items.join(" ")),
        ));
        if let Some(f) = s.finish_t {
            ev.push((f.0, format!("vt{} finish span#{} (t={}..{}){}", s.finish_vt.unwrap_or(99), i, f.0, f.1, s.in_adapter.map(|a| format!(" via adapter#{}", a)).unwrap_or_default())));
        }
        for c in &s.cancel_t {
            ev.push((c.0, format!("cancel span#{}", i)));
        }
    }
    for (i, sc) in h.scopes.iter().enumerate() {
        let k = match &sc.kind {
            ScopeKind::Parent { span, items } => format!("parent-scope of span#{} ({} items)", span, items.len()),
            ScopeKind::Collector => "collector-scope".to_string(),
        };
        ev.push((sc.open_t, format!("vt{} open scope#{} {} depth {}", sc.vt, i, k, sc.depth)));
        if let Some(c) = sc.close_t {
            ev.push((c.0, format!("vt{} close scope#{} (t={}..{}) set={:?} discarded={}", sc.vt, i, c.0, c.1, sc.set, sc.discarded)));
        }
    }
    for (i, l) in h.locals.iter().enumerate() {
        ev.push((l.enter_t, format!("vt{} enter local#{} {:?} in scope#{} parent {:?} via {}", l.vt, i, l.name, l.scope, l.parent, l.via)));
        if let Some(x) = l.exit_t {
            ev.push((x, format!("vt{} exit local#{}{}", l.vt, i, if l.open_at_collect { " (open at collect)" } else { "" })));
        }
    }
    for a in &h.atts {
        let k = match &a.kind {
            AKind::Props(p) => format!("props {:?}", p.iter().map(|x| x.0.as_str()).collect::<Vec<_>>()),
            AKind::Event { name, props } => format!("event {:?} ({} props)", name, props.len()),
        };
        ev.push((a.t.0, format!("vt{} attach {} -> {:?} route {:?} scope {:?} (t={}..{})", a.vt, k, a.target, a.route, a.scope, a.t.0, a.t.1)));
    }
    for (i, p) in h.pushes.iter().enumerate() {
        ev.push((p.t.0, format!("vt{} push#{} set#{} -> span#{}", p.vt, i, p.set, p.span)));
    }
    for (i, c) in h.convs.iter().enumerate() {
        ev.push((c.t, format!("conv#{} set#{} trace {:x} parent {:x}: {} records", i, c.set, c.trace, c.parent, c.records.len())));
    }
    for (i, c) in h.cycles.iter().enumerate() {
        ev.push((c.t0, format!("== cycle#{} begins", i)));
        if let Some(t1) = c.t1 {
            ev.push((t1, format!("== cycle#{} ends (interleaved steps {})", i, c.interleaved)));
        }
    }
    for (i, b) in h.batches.iter().enumerate() {
        let recs: Vec<String> = b
            .records
            .iter()
            .map(|r| {
                format!(
                    "{:?}[trace {:x} id {:x} parent {:x} props {:?} events {:?}]",
                    r.name,
                    r.trace_id.0,
                    r.span_id.0,
                    r.parent_id.0,
                    r.properties.iter().map(|p| p.0.as_ref()).collect::<Vec<_>>(),
                    r.events.iter().map(|e| e.name.as_ref()).collect::<Vec<_>>()
                )
            })
            .collect();
        ev.push((b.t, format!("   report#{} (cycle#{}): {}", i, b.cycle, recs.join(", "))));
    }
    for f in &h.flushes {
        ev.push((f.t0, format!("vt{} flush() called", f.vt)));
        if let Some(t1) = f.t1 {
            ev.push((t1, format!("vt{} flush() returned", f.vt)));
        }
    }
    for c in &h.ctxs {
        ev.push((c.t, format!("ctx {:?}: expected {:?} observed {:x?}", c.src, c.exp, c.obs)));
    }
    for p in &h.probes {
        ev.push((p.t, format!("vt{} probe ctx#{} depth {} clp {:x?} span {:?} noop={} event {:?}", p.vt, p.ctx_ver, p.depth, p.clp, p.span_name, p.span_is_noop, p.event_name)));
    }
    for p in &h.panics {
        ev.push((p.t, format!("vt{} PANIC in {}: {}", p.vt, p.op, p.msg)));
    }
    for (i, v) in h.vts.iter().enumerate() {
        if let Some(b) = v.born_t {
            ev.push((b, format!("vt{} born", i)));
        }
        if let Some(e) = v.exit_t {
            ev.push((e.0, format!("vt{} exits (joined t={}..{})", i, e.0, e.1)));
        }
    }
    for (ai, a) in h.adapters.iter().enumerate() {
        for (pi, p) in a.polls.iter().enumerate() {
            ev.push((p.t.0, format!("vt{} adapter#{} ({:?}, span {:?}) call#{} {:?} -> {:?} finishing={} inside_clp={:x?} (t={}..{})", p.vt, ai, a.kind, a.span, pi, p.entry, p.end, p.finishing, p.inside_clp, p.t.0, p.t.1)));
        }
        if let Some(d) = a.dropped_t {
            ev.push((d.0, format!("adapter#{} dropped", ai)));
        }
    }
    for hk in &h.hooks {
        ev.push((hk.t, format!("      hook vt{:?} {:?}", hk.vt, hk.kind)));
    }
    for s in &h.stats {
        ev.push((s.t, format!("      stats {:?} final={}", s.s, s.final_)));
    }
    ev.sort_by_key(|e| e.0);
    ev.into_iter().map(|(t, s)| format!("t={:<4} {}", t, s)).collect()
}

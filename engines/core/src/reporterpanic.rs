//! C07, state "the installed reporter has failed": a `Reporter::report()` call that panics on the
//! library's background thread takes that thread down. The host's later tracing calls
//! (`flush()`, `set_reporter()`, span creation and finish) still have to return normally.
//! The reporter only panics on the background collector thread (recognised by its name): a panic
//! inside a `flush()` issued by the host is handed to the caller by the library on the pinned tree
//! (`join().unwrap()`), which is a different matter and is not generated here.

use std::panic::{catch_unwind, AssertUnwindSafe};
use std::sync::atomic::{AtomicBool, AtomicU64, Ordering};
use std::time::Duration;

use fastrace::collector::{Config, Reporter, SpanRecord};
use fastrace::prelude::*;
use proptest::prelude::*;
use serde::{Deserialize, Serialize};

#[derive(Clone, Debug, Serialize, Deserialize, PartialEq)]
pub enum RpOp {
    Flush,
    SetReporter { cancelable: bool },
    RootAndDrop,
    RootChildLocal,
    Cancel,
}

#[derive(Clone, Debug, Serialize, Deserialize, PartialEq)]
pub struct RpCase {
    /// configuration of the reporter that is going to fail
    pub cancelable: bool,
    /// the reporter panics in its k-th non-empty report() on the background thread (k = 0: the
    /// first call of all, which is the empty one right after set_reporter)
    pub kth: u8,
    pub after: Vec<RpOp>,
}

pub fn strategy() -> BoxedStrategy<RpCase> {
    let op = prop_oneof![
        4 => Just(RpOp::Flush),
        2 => any::<bool>().prop_map(|cancelable| RpOp::SetReporter { cancelable }),
        3 => Just(RpOp::RootAndDrop),
        2 => Just(RpOp::RootChildLocal),
        1 => Just(RpOp::Cancel),
    ];
    (any::<bool>(), 0u8..3, proptest::collection::vec(op, 1..8)).prop_map(|(cancelable, kth, after)| RpCase { cancelable, kth, after }).boxed()
}

static PANICKED: AtomicBool = AtomicBool::new(false);
static TRACE: AtomicU64 = AtomicU64::new(1);

struct Failing {
    left: u8,
}

impl Reporter for Failing {
    fn report(&mut self, spans: Vec<SpanRecord>) {
        let bg = std::thread::current().name() == Some("fastrace-global-collector");
        if !bg || PANICKED.load(Ordering::SeqCst) {
            return;
        }
        if self.left == 0 || !spans.is_empty() {
            if self.left <= 1 {
                PANICKED.store(true, Ordering::SeqCst);
                std::panic::resume_unwind(Box::new("the reporter failed"));
            }
            self.left -= 1;
        }
    }
}

struct Quiet;
impl Reporter for Quiet {
    fn report(&mut self, _spans: Vec<SpanRecord>) {}
}

fn root() -> Span {
    Span::root("rp-root", SpanContext::new(TraceId(TRACE.fetch_add(1, Ordering::Relaxed) as u128), SpanId(0)))
}

fn guarded(what: &str, out: &mut Vec<String>, f: impl FnOnce()) {
    if let Err(p) = catch_unwind(AssertUnwindSafe(f)) {
        let msg = p.downcast_ref::<&str>().map(|s| s.to_string()).or_else(|| p.downcast_ref::<String>().cloned()).unwrap_or_else(|| "?".into());
        out.push(format!("{}: panicked after the reporter had failed on the background thread: {}", what, msg.chars().take(200).collect::<String>()));
    }
}

pub fn run(c: &RpCase) -> Vec<String> {
    let mut out = vec![];
    PANICKED.store(false, Ordering::SeqCst);
    let (kth, canc) = (c.kth, c.cancelable);
    guarded("fastrace::set_reporter (in a process where an earlier reporter had failed)", &mut out, || {
        fastrace::set_reporter(Failing { left: kth }, Config::default().report_interval(Duration::from_millis(2)).cancelable(canc))
    });
    if !out.is_empty() {
        return out;
    }
    // feed the background thread until the reporter has failed
    let t0 = std::time::Instant::now();
    while !PANICKED.load(Ordering::SeqCst) {
        drop(root());
        std::thread::sleep(Duration::from_millis(1));
        if t0.elapsed() > Duration::from_secs(20) {
            // the background thread never called the reporter: nothing to judge here (C01's business)
            fastrace::set_reporter(Quiet, Config::default().report_interval(Duration::from_secs(3600)));
            return out;
        }
    }
    // let the unwinding finish
    std::thread::sleep(Duration::from_millis(3));
    for op in &c.after {
        match op {
            RpOp::Flush => guarded("fastrace::flush", &mut out, fastrace::flush),
            RpOp::SetReporter { cancelable } => guarded("fastrace::set_reporter", &mut out, || {
                fastrace::set_reporter(Quiet, Config::default().report_interval(Duration::from_secs(3600)).cancelable(*cancelable))
            }),
            RpOp::RootAndDrop => guarded("Span::root / drop", &mut out, || drop(root())),
            RpOp::RootChildLocal => guarded("Span::root / set_local_parent / LocalSpan", &mut out, || {
                let r = root();
                let _g = r.set_local_parent();
                let _l = LocalSpan::enter_with_local_parent("rp-local").with_property(|| ("k", "v"));
                let _c = Span::enter_with_local_parent("rp-child");
            }),
            RpOp::Cancel => guarded("Span::cancel", &mut out, || {
                let r = root();
                r.cancel();
            }),
        }
    }
    // leave a working, quiet collector for the next case
    guarded("fastrace::set_reporter (clean-up)", &mut out, || fastrace::set_reporter(Quiet, Config::default().report_interval(Duration::from_secs(3600))));
    guarded("fastrace::flush (clean-up)", &mut out, fastrace::flush);
    out
}

//! C01, overlapping flush() calls: "delivery happens at the latest when a flush() called
//! afterwards returns" also when another flush() is in progress. The harness owns the schedule:
//! the reporter parks the first flush's cycle inside report(); while it is parked a second thread
//! finishes spans and calls flush(); the gate is opened only after that call has started.

use std::sync::atomic::{AtomicBool, AtomicU64, Ordering};
use std::sync::{Arc, Condvar, Mutex};
use std::time::Duration;

use fastrace::collector::{Config, Reporter};
use fastrace::prelude::*;
use proptest::prelude::*;
use serde::{Deserialize, Serialize};

#[derive(Clone, Debug, Serialize, Deserialize, PartialEq)]
pub struct FrCase {
    /// spans thread B finishes before calling flush(): 0 root, 1 child of a live root, 2 local scope,
    /// 3 root on which cancel() is called first (a no-op in the default configuration)
    pub b_spans: Vec<u8>,
    /// extra threads that also finish a span and flush while the first flush is parked
    pub extra: u8,
    /// delay between "B is about to call flush()" and opening the gate
    pub delay_us: u16,
    pub cancelable: bool,
    /// roots created before the first flush starts (its cycle consumes their start) and finished
    /// while that flush is parked inside report(), before the other threads call flush()
    #[serde(default)]
    pub pre_roots: u8,
    /// instead of the overlapping flushes: a thread whose command queue is completely full calls
    /// cancel() / finishes its root and then calls flush() itself
    #[serde(default)]
    pub full: Option<FullCase>,
    /// instead of the overlapping flushes: brand-new threads released at the same instant, each
    /// finishing spans with its first tracing calls; after all of them returned, one flush()
    #[serde(default)]
    pub burst: Option<BurstCase>,
}

#[derive(Clone, Debug, Serialize, Deserialize, PartialEq)]
pub struct BurstCase {
    pub threads: u8,
    pub rounds: u8,
    /// what each thread finishes: 0 a root, 1 a child of a live root handed to it, 2 a local scope
    pub kind: u8,
    /// a collector cycle (another thread's flush()) runs while the threads start
    pub cycle_meanwhile: bool,
    /// the threads stay alive until the flush() has returned (otherwise they exit at once)
    #[serde(default)]
    pub stay: bool,
}

#[derive(Clone, Debug, Serialize, Deserialize, PartialEq)]
pub struct FullCase {
    /// events attached beyond the queue's capacity (they are dropped: permitted)
    pub over: u16,
    /// the root is cancelled while the queue is full (cancelable collector only)
    pub cancel: bool,
    /// the thread calls flush() itself after the cancel / before it finishes the root
    pub flush_by_self: bool,
    /// further roots finished by the thread while the queue is still full (parked behind)
    pub more_parked: u8,
}

pub fn strategy() -> BoxedStrategy<FrCase> {
    let full = prop_oneof![
        3 => Just(None),
        1 => (0u16..3000, any::<bool>(), proptest::bool::weighted(0.8), 0u8..3).prop_map(|(over, cancel, flush_by_self, more_parked)| Some(FullCase { over, cancel, flush_by_self, more_parked })),
    ];
    let burst = prop_oneof![
        4 => Just(None),
        1 => (prop_oneof![1 => 2u8..8, 2 => 8u8..33], 1u8..9, 0u8..3, proptest::bool::weighted(0.3), any::<bool>()).prop_map(|(threads, rounds, kind, cycle_meanwhile, stay)| Some(BurstCase { threads, rounds, kind, cycle_meanwhile, stay })),
    ];
    (proptest::collection::vec(0u8..4, 1..5), 0u8..3, prop_oneof![1 => Just(0u16), 3 => 50u16..3000], Just(false), prop_oneof![1 => Just(0u8), 2 => 1u8..4], full, burst)
        .prop_map(|(b_spans, extra, delay_us, cancelable, pre_roots, full, burst)| {
            let full = if burst.is_some() { None } else { full };
            FrCase { b_spans, extra, delay_us, cancelable, pre_roots, full, burst }
        })
        .boxed()
}

#[derive(Default)]
struct Gate {
    /// name prefix whose batch parks the collector
    park_on: Mutex<Option<String>>,
    parked: Mutex<bool>,
    open: Mutex<bool>,
    cv: Condvar,
}

static GATE: std::sync::OnceLock<Arc<Gate>> = std::sync::OnceLock::new();
static SINK: Mutex<Vec<String>> = Mutex::new(Vec::new());
static CASE: AtomicU64 = AtomicU64::new(0);

struct GateReporter(Arc<Gate>);
impl Reporter for GateReporter {
    fn report(&mut self, spans: Vec<SpanRecord>) {
        let names: Vec<String> = spans.iter().map(|s| s.name.to_string()).collect();
        let park = {
            let p = self.0.park_on.lock().unwrap();
            p.as_ref().map_or(false, |pre| names.iter().any(|n| n == pre))
        };
        SINK.lock().unwrap().extend(names);
        if park {
            *self.0.park_on.lock().unwrap() = None;
            *self.0.parked.lock().unwrap() = true;
            self.0.cv.notify_all();
            let mut o = self.0.open.lock().unwrap();
            let deadline = std::time::Instant::now() + Duration::from_secs(20);
            while !*o && std::time::Instant::now() < deadline {
                o = self.0.cv.wait_timeout(o, Duration::from_millis(50)).unwrap().0;
            }
        }
    }
}

static CANCELABLE: AtomicBool = AtomicBool::new(false);

pub fn install() {
    install_with(false)
}

/// `cancelable`: the collector holds every trace until its root finishes (C03 / C04)
pub fn install_with(cancelable: bool) {
    CANCELABLE.store(cancelable, Ordering::SeqCst);
    let g = GATE.get_or_init(|| Arc::new(Gate::default())).clone();
    fastrace::set_reporter(GateReporter(g), Config::default().report_interval(Duration::from_secs(3600)).cancelable(cancelable));
    std::thread::sleep(Duration::from_millis(100)); // the background thread's initial (empty) cycle
}

/// A thread fills its command queue completely, then cancels / finishes its root, calls flush()
/// itself and exits. Whatever was dropped because the queue was full is a permitted omission; a
/// cancel or a finish signal issued while the queue was full is not lost while the thread lives
/// (nor when it exits after a cycle made room).
fn run_full(f: &FullCase, tag: &str) -> Vec<String> {
    let cancelable = CANCELABLE.load(Ordering::SeqCst);
    fastrace::flush();
    SINK.lock().unwrap().clear();
    let (f2, tag2) = (f.clone(), tag.to_string());
    let h = std::thread::spawn(move || {
        let root = Span::root(format!("full-root-{}", tag2), SpanContext::new(TraceId(0xF011), SpanId(0)));
        let child = Span::enter_with_parent(format!("full-child-{}", tag2), &root);
        for _ in 0..(10240usize + f2.over as usize) {
            child.add_event(Event::new("f"));
        }
        // the queue is full from here on
        let mut parked_roots = vec![];
        for k in 0..f2.more_parked {
            let r = Span::root(format!("full-more-{}-{}", tag2, k), SpanContext::new(TraceId(0xF100 + k as u128), SpanId(0)));
            drop(r); // its finish signal is parked
            parked_roots.push(k);
        }
        if f2.cancel {
            root.cancel();
        }
        if f2.flush_by_self {
            fastrace::flush(); // a cycle drains the queue; what is parked stays with the thread
        }
        drop(child);
        drop(root);
        // the thread does not exit with a full queue and parked signals (that loss is a known
        // limitation and would leave state behind for the cases that follow): a cycle makes room,
        // the next command of the thread replays what is parked
        fastrace::flush();
        drop(Span::root("fill-replay", SpanContext::new(TraceId(0xF0FF), SpanId(0))));
    });
    let _ = h.join();
    fastrace::flush();
    fastrace::flush();
    let sink = SINK.lock().unwrap().clone();
    let mut out = vec![];
    #[cfg(fastrace_verif)]
    {
        // every root of the case was finished or cancelled, the signals parked while the queue was
        // full were replayed by the thread's last command, and cycles have run since
        let st = fastrace::verif::collector_stats();
        if st.active_collectors != 0 || st.buffered_span_sets != 0 {
            out.push(format!("RETAINED: after a full-queue episode (finish/cancel signals parked, the thread called flush() itself, later commands replayed them) the collector still holds {:?}", st));
        }
    }
    let root_name = format!("full-root-{}", tag);
    let n_root = sink.iter().filter(|m| **m == root_name).count();
    let n_child = sink.iter().filter(|m| **m == format!("full-child-{}", tag)).count();
    if f.cancel && cancelable {
        if n_root + n_child > 0 {
            out.push(format!("CANCELLED-DELIVERED: a root cancelled while its thread's queue was full (the thread then called flush() itself: {}) was reported ({} root, {} child records)", f.flush_by_self, n_root, n_child));
        }
    } else if f.flush_by_self {
        // the queue had room again when the root was finished: its record and its finish signal arrive
        if n_root != 1 {
            out.push(format!("FULL-LOST: a root finished after its thread's full queue had been drained by the thread's own flush() was reported {} times (cancel called: {}, cancelable: {})", n_root, f.cancel, cancelable));
        }
    }
    out
}

/// Brand-new threads start tracing at the same instant (their first command registers their
/// queue); each finishes its spans and returns. A flush() called after all of them were joined
/// reports everything they finished (in the holding configuration: once the roots are finished).
fn run_burst(b: &BurstCase, tag: &str) -> Vec<String> {
    let cancelable = CANCELABLE.load(Ordering::SeqCst);
    let mut out = vec![];
    for round in 0..b.rounds {
        fastrace::flush();
        SINK.lock().unwrap().clear();
        let n = b.threads as usize;
        // released by a flag the threads spin on: they leave within nanoseconds of each other
        let ready = Arc::new(AtomicU64::new(0));
        let go = Arc::new(AtomicBool::new(false));
        let release = Arc::new(AtomicBool::new(false));
        let live = Span::root(format!("burst-live-{}-{}", tag, round), SpanContext::new(TraceId(0xB000), SpanId(0)));
        let mut hs = vec![];
        let mut want = vec![];
        for t in 0..n {
            let name = format!("burst-{}-{}-{}", tag, round, t);
            let parent = if b.kind == 0 { None } else { Some(Span::enter_with_parent(format!("burst-handoff-{}-{}-{}", tag, round, t), &live)) };
            if b.kind == 0 || !cancelable {
                want.push(name.clone());
            }
            let (ready2, go2, release2, stay) = (ready.clone(), go.clone(), release.clone(), b.stay);
            let kind = b.kind;
            hs.push(std::thread::spawn(move || {
                ready2.fetch_add(1, Ordering::SeqCst);
                while !go2.load(Ordering::Acquire) {
                    std::hint::spin_loop();
                }
                match (kind, &parent) {
                    (1, Some(p)) => drop(Span::enter_with_parent(name, p)),
                    (2, Some(p)) => {
                        let _g = p.set_local_parent();
                        let _l = LocalSpan::enter_with_local_parent(name);
                    }
                    _ => drop(Span::root(name, SpanContext::new(TraceId(0xB100 + t as u128), SpanId(0)))),
                }
                ready2.fetch_add(1, Ordering::SeqCst);
                while stay && !release2.load(Ordering::Acquire) {
                    std::thread::sleep(Duration::from_micros(200));
                }
                parent
            }));
        }
        while ready.load(Ordering::SeqCst) < n as u64 {
            std::hint::spin_loop();
        }
        go.store(true, Ordering::Release);
        if b.cycle_meanwhile {
            fastrace::flush();
        }
        // every thread has finished its spans
        while ready.load(Ordering::SeqCst) < 2 * n as u64 {
            std::thread::yield_now();
        }
        let parents: Vec<Option<Span>> = if b.stay {
            fastrace::flush();
            release.store(true, Ordering::Release);
            hs.into_iter().map(|h| h.join().unwrap_or(None)).collect()
        } else {
            let p = hs.into_iter().map(|h| h.join().unwrap_or(None)).collect();
            fastrace::flush();
            p
        };
        let sink = SINK.lock().unwrap().clone();
        let missing: Vec<&String> = want.iter().filter(|w| !sink.contains(w)).collect();
        if !missing.is_empty() {
            out.push(format!(
                "span {:?} (and {} more of {}) finished by a thread that started together with {} others was not reported when a flush() called after all of them had returned came back",
                missing[0],
                missing.len() - 1,
                want.len(),
                n - 1
            ));
        }
        drop(parents);
        drop(live);
        fastrace::flush();
        if out.is_empty() {
            let sink = SINK.lock().unwrap().clone();
            for t in 0..n {
                let name = format!("burst-{}-{}-{}", tag, round, t);
                let k = sink.iter().filter(|m| **m == name).count();
                if k != 1 {
                    out.push(format!("INCOMPLETE: span {:?} of a thread that started together with {} others was reported {} times after every root had finished and a cycle had run", name, n - 1, k));
                    break;
                }
            }
        }
        if !out.is_empty() {
            break;
        }
    }
    out
}

/// returns violations; Err = harness could not set up the overlap (inconclusive case)
pub fn run(c: &FrCase) -> Result<Vec<String>, String> {
    if let Some(b) = &c.burst {
        let case = CASE.fetch_add(1, Ordering::SeqCst);
        let tag = format!("{}x{}", std::process::id(), case);
        return Ok(run_burst(b, &tag));
    }
    if let Some(f) = &c.full {
        let case = CASE.fetch_add(1, Ordering::SeqCst);
        let tag = format!("{}x{}", std::process::id(), case);
        return Ok(run_full(f, &tag));
    }
    let g = GATE.get().expect("install() first").clone();
    let case = CASE.fetch_add(1, Ordering::SeqCst);
    let tag = format!("{}x{}", std::process::id(), case);
    fastrace::flush();
    SINK.lock().unwrap().clear();
    let gate_name = format!("gate-{}", tag);
    *g.parked.lock().unwrap() = false;
    *g.open.lock().unwrap() = false;
    *g.park_on.lock().unwrap() = Some(gate_name.clone());
    // traces that are alive across the first flush's cycle
    let mut pre: Vec<(String, Span, Span)> = (0..c.pre_roots)
        .map(|i| {
            let r = Span::root(format!("pre-{}-{}", tag, i), SpanContext::new(TraceId(300 + i as u128), SpanId(0)));
            let ch = Span::enter_with_parent(format!("prech-{}-{}", tag, i), &r);
            (format!("pre-{}-{}", tag, i), r, ch)
        })
        .collect();
    // thread A: its flush() parks inside report()
    let gn = gate_name.clone();
    let a = std::thread::spawn(move || {
        let r = Span::root(gn, SpanContext::new(TraceId(1), SpanId(0)));
        drop(r);
        fastrace::flush();
    });
    {
        let mut p = g.parked.lock().unwrap();
        let deadline = std::time::Instant::now() + Duration::from_secs(10);
        while !*p {
            if std::time::Instant::now() > deadline {
                *g.open.lock().unwrap() = true;
                g.cv.notify_all();
                let _ = a.join();
                return Err("first flush never reached the reporter".into());
            }
            p = g.cv.wait_timeout(p, Duration::from_millis(20)).unwrap().0;
        }
    }
    // threads B..: finish spans, then flush() while A's cycle is parked
    let entering = Arc::new(AtomicU64::new(0));
    // finished while the first cycle is inside report(): the next cycle consumes these commands
    let mut pre_names = vec![];
    for (n, r, ch) in pre.drain(..) {
        pre_names.push(n.replace("pre-", "prech-"));
        pre_names.push(n);
        drop(ch);
        drop(r);
    }
    let live_root = Span::root(format!("live-{}", tag), SpanContext::new(TraceId(2), SpanId(0)));
    let nthreads = 1 + c.extra as usize;
    let mut hs = vec![];
    let results: Arc<Mutex<Vec<String>>> = Arc::new(Mutex::new(vec![]));
    let started = Arc::new(AtomicBool::new(false));
    for t in 0..nthreads {
        let kinds = if t == 0 { c.b_spans.clone() } else { vec![0] };
        let tag2 = tag.clone();
        let entering2 = entering.clone();
        let results2 = results.clone();
        let parent = Span::enter_with_parent(format!("handoff-{}-{}", tag, t), &live_root);
        let started2 = started.clone();
        let pre_names2 = if t == 0 { pre_names.clone() } else { vec![] };
        hs.push(std::thread::spawn(move || {
            let mut mine = pre_names2;
            let cancelable = CANCELABLE.load(Ordering::SeqCst);
            for (i, k) in kinds.iter().enumerate() {
                let name = format!("b{}-{}-{}", t, tag2, i);
                // spans of a trace whose root is still open are not due yet when the collector
                // holds traces back; a cancelled trace is never due
                let due = !cancelable || *k == 0;
                match k {
                    0 => drop(Span::root(name.clone(), SpanContext::new(TraceId(100 + i as u128), SpanId(0)))),
                    1 => drop(Span::enter_with_parent(name.clone(), &parent)),
                    3 => {
                        let r = Span::root(name.clone(), SpanContext::new(TraceId(200 + i as u128), SpanId(0)));
                        r.cancel();
                        parent.cancel(); // not a root: nothing to cancel
                        drop(r);
                    }
                    _ => {
                        let _g = parent.set_local_parent();
                        let _l = LocalSpan::enter_with_local_parent(name.clone());
                    }
                }
                if due {
                    mine.push(name);
                }
            }
            started2.store(true, Ordering::SeqCst);
            entering2.fetch_add(1, Ordering::SeqCst);
            fastrace::flush();
            // everything finished before the call must have been reported when it returns
            let sink = SINK.lock().unwrap().clone();
            let mut r = results2.lock().unwrap();
            for n in mine {
                if !sink.contains(&n) {
                    r.push(format!("span {:?} finished before flush() was not reported when flush() returned (another flush() was in progress)", n));
                }
            }
            drop(parent);
        }));
    }
    // open the gate only after every thread is about to call (or inside) flush()
    let deadline = std::time::Instant::now() + Duration::from_secs(5);
    while entering.load(Ordering::SeqCst) < nthreads as u64 && std::time::Instant::now() < deadline {
        std::thread::yield_now();
    }
    if entering.load(Ordering::SeqCst) < nthreads as u64 {
        // creating and finishing a handful of spans took more than 5 s while a collector cycle
        // was parked inside Reporter::report(): those tracing calls block on the collector
        results.lock().unwrap().push(
            "BLOCKED: a thread's tracing calls (first use of the API on that thread) did not complete within 5 s while a collector cycle was in progress inside Reporter::report()".to_string(),
        );
    }
    std::thread::sleep(Duration::from_micros(c.delay_us as u64));
    *g.open.lock().unwrap() = true;
    g.cv.notify_all();
    // every flush() must return once the reporter is released: a caller that is still inside
    // flush() 8 s later (the collector is idle by then) is blocked for good
    let deadline = std::time::Instant::now() + Duration::from_secs(8);
    let mut stuck = 0;
    let mut all = vec![a];
    all.extend(hs);
    for h in all {
        while !h.is_finished() && std::time::Instant::now() < deadline {
            std::thread::sleep(Duration::from_millis(2));
        }
        if h.is_finished() {
            let _ = h.join();
        } else {
            stuck += 1; // left behind: it may never return
        }
    }
    if stuck > 0 {
        results.lock().unwrap().push(format!(
            "BLOCKED-FLUSH: {} of {} overlapping flush() calls had not returned 8 s after the reporter call they were waiting for had returned",
            stuck,
            nthreads + 1
        ));
        let r = results.lock().unwrap().clone();
        return Ok(r);
    }
    drop(live_root);
    fastrace::flush();
    if CANCELABLE.load(Ordering::SeqCst) {
        // every trace of the case has finished by now: each arrives whole, cancelled ones not at all
        let sink = SINK.lock().unwrap().clone();
        let mut want: Vec<String> = vec![format!("live-{}", tag)];
        for t in 0..nthreads {
            want.push(format!("handoff-{}-{}", tag, t));
            let kinds = if t == 0 { c.b_spans.clone() } else { vec![0] };
            for (i, k) in kinds.iter().enumerate() {
                let name = format!("b{}-{}-{}", t, tag, i);
                if *k == 3 {
                    if sink.contains(&name) {
                        results.lock().unwrap().push(format!("CANCELLED-DELIVERED: root {:?} was cancelled before it finished but was reported", name));
                    }
                } else {
                    want.push(name);
                }
            }
        }
        for n in want {
            let k = sink.iter().filter(|m| **m == n).count();
            if k != 1 {
                results.lock().unwrap().push(format!("INCOMPLETE: span {:?} finished before its root did, all roots have finished and a cycle has run, but it was reported {} times", n, k));
            }
        }
    }
    #[cfg(fastrace_verif)]
    {
        // C08: every trace of the case has finished and a full cycle has run since
        let st = fastrace::verif::collector_stats();
        if st.active_collectors != 0 || st.buffered_span_sets != 0 {
            results.lock().unwrap().push(format!("RETAINED: after overlapping flush() calls, all roots finished and one more cycle, the collector still holds {:?}", st));
        }
    }
    let r = results.lock().unwrap().clone();
    Ok(r)
}

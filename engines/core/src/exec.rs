//! Interpreter: executes a generated program on real OS threads under the baton scheduler,
//! calling the public fastrace API and updating the reference model in lockstep.

use std::any::Any;
use std::cell::{Cell, RefCell};
use std::panic::{catch_unwind, AssertUnwindSafe};
use std::sync::atomic::{AtomicU64, AtomicUsize, Ordering};
use std::sync::{Arc, Mutex, MutexGuard};

use fastrace::collector::{Config, Reporter};
use fastrace::local::{LocalCollector, LocalSpans};
use fastrace::prelude::*;

use crate::adapters::{self, AdapterObj};
use crate::baton::{Baton, Yield};
use crate::prog::*;
use crate::strs;
use crate::world::*;

#[derive(Clone, Copy, Debug, PartialEq, Eq)]
pub enum Mode {
    /// public API only; collector cycles are real `fastrace::flush()` calls (atomic)
    Api,
    /// hooked build: the baton is also handed over at the hook sites inside the library
    Sched,
}

#[derive(Clone, Debug)]
pub struct ExecOpts {
    pub mode: Mode,
    /// exclude shapes of known findings by construction (counted in Hist.excluded)
    pub exclude: Vec<&'static str>,
    /// take time brackets (costs two clock reads per call)
    pub brackets: bool,
    /// no reporter installed yet (C16 phase A / C07 state (i)); ops run, nothing may be delivered
    pub reporter_ready: bool,
    /// sample collector stats (sched only)
    pub stats: bool,
    /// tracing disabled at compile time
    pub disabled: bool,
    /// trace ids unique per root within a case
    pub unique_traces: bool,
    /// probe the local context after every guard pop
    pub auto_probe: bool,
    /// replay of a known finding's witness: nothing is excluded by construction
    pub strict: bool,
}

impl ExecOpts {
    pub fn new(mode: Mode) -> Self {
        ExecOpts {
            mode,
            exclude: vec![],
            brackets: false,
            reporter_ready: true,
            stats: false,
            disabled: !cfg!(feature = "enable"),
            unique_traces: true,
            auto_probe: false,
            strict: false,
        }
    }
    /// shapes of known findings that are excluded in every profile (they end the process)
    const ALWAYS_EXCLUDED: [&'static str; 1] = ["shadowed_builder"];
    pub fn excl(&self, k: &str) -> bool {
        self.exclude.iter().any(|e| *e == k) || (!self.strict && Self::ALWAYS_EXCLUDED.contains(&k))
    }
}

pub enum Slot<X> {
    Live(X),
    Busy,
    Gone,
}

impl<X> Slot<X> {
    fn is_live(&self) -> bool {
        matches!(self, Slot::Live(_))
    }
    fn take(&mut self) -> Option<X> {
        match std::mem::replace(self, Slot::Busy) {
            Slot::Live(x) => Some(x),
            other => {
                *self = other;
                None
            }
        }
    }
}

pub struct World {
    /// empty report() calls are counted, not recorded (idle cycles)
    pub quiet_empty_batches: bool,
    pub t: T,
    pub tag: String,
    pub uniq: u32,
    pub spans: Vec<Slot<Span>>,
    /// `None`: the harness gave its last handle away (pushed by value)
    pub sets: Vec<Option<LocalSpans>>,
    /// extracted contexts that were Some: (context, index into h.ctxs)
    pub ctxs: Vec<(SpanContext, usize)>,
    pub adapters: Vec<Slot<AdapterObj>>,
    pub h: Hist,
    pub case_start: fastant::Instant,
    pub used_traces: Vec<u128>,
    pub ctx_ver: u64,
    pub collector_stop: bool,
    pub closure_hits: u64,
    pub fill_cids: Vec<usize>,
    pub drain_ring: usize,
}

impl World {
    pub fn tick(&mut self) -> T {
        self.t += 1;
        self.t
    }
    fn uniq(&mut self) -> u32 {
        self.uniq += 1;
        self.uniq
    }
    pub fn name(&mut self, s: StrSeed) -> String {
        let u = self.uniq();
        format!("{}~{}.{}", strs::expand(s), self.tag, u)
    }
    fn props(&mut self, s: StrSeed, n: u8) -> Vec<(String, String)> {
        (0..n)
            .map(|i| {
                let u = self.uniq();
                (
                    format!("{}~k{}.{}", strs::expand(strs::derive(s, i)), self.tag, u),
                    strs::expand(strs::derive(s, i.wrapping_add(17))),
                )
            })
            .collect()
    }
    fn new_ver(&mut self) -> u64 {
        self.ctx_ver += 1;
        self.ctx_ver
    }
}

pub struct Case {
    pub prog: Program,
    pub opts: ExecOpts,
    pub baton: Baton,
    pub w: Mutex<World>,
}

impl Case {
    pub fn w(&self) -> MutexGuard<'_, World> {
        self.w.lock().unwrap_or_else(|e| e.into_inner())
    }
}

static CURRENT: Mutex<Option<Arc<Case>>> = Mutex::new(None);
pub static ORPHANS: Mutex<Vec<SpanRecord>> = Mutex::new(Vec::new());
pub static REPORT_CALLS: AtomicU64 = AtomicU64::new(0);
static CASE_NO: AtomicUsize = AtomicUsize::new(0);

thread_local! {
    static VT: RefCell<Option<(Arc<Case>, usize)>> = const { RefCell::new(None) };
    static NO_YIELD: Cell<bool> = const { Cell::new(false) };
    /// hook sites are logged but are no yield points (idle collector cycles)
    static LOG_ONLY: Cell<bool> = const { Cell::new(false) };
    static LAST_FREE: Cell<usize> = const { Cell::new(usize::MAX) };
    static IS_COLLECTOR: Cell<bool> = const { Cell::new(false) };
    pub static ACTIVE: Cell<*mut VtCtx> = const { Cell::new(std::ptr::null_mut()) };
}

pub struct SinkReporter;

fn wall_ns() -> u64 {
    std::time::SystemTime::now()
        .duration_since(std::time::UNIX_EPOCH)
        .map(|d| d.as_nanos() as u64)
        .unwrap_or(0)
}

impl Reporter for SinkReporter {
    fn report(&mut self, spans: Vec<SpanRecord>) {
        REPORT_CALLS.fetch_add(1, Ordering::SeqCst);
        // the reporter belongs to the collector: the background thread, flush()'s helper thread
        // or (sched engine) the collector vthread. On a program vthread it runs inside a
        // tracing call of the host.
        if !IS_COLLECTOR.with(|c| c.get()) {
            if let Some((case, id)) = VT.try_with(|v| v.borrow().clone()).ok().flatten() {
                let mut w = case.w();
                let t = w.tick();
                w.h.host_cycles.push((id, t, "Reporter::report"));
            }
        }
        let cur = CURRENT.lock().unwrap_or_else(|e| e.into_inner()).clone();
        match cur {
            Some(case) => {
                let mut w = case.w();
                if w.quiet_empty_batches && spans.is_empty() {
                    w.h.idle_reports += 1;
                    return;
                }
                let t = w.tick();
                let cycle = w.h.cycles.len().saturating_sub(1);
                w.h.batches.push(Batch {
                    t,
                    records: spans,
                    cycle,
                    wall_ns: wall_ns(),
                });
            }
            None => ORPHANS.lock().unwrap().extend(spans),
        }
    }
}

#[cfg(fastrace_verif)]
fn hook(site: fastrace::verif::Site) {
    use fastrace::verif::Site;
    let cur = VT.try_with(|v| v.borrow().clone()).ok().flatten();
    let Some((case, id)) = cur else {
        // not a vthread (final cycles on the scheduler thread): log only
        if let Some(case) = CURRENT.lock().unwrap_or_else(|e| e.into_inner()).clone() {
            let mut w = case.w();
            match site {
                Site::BeforeDrain { ring } => w.drain_ring = ring,
                Site::Received { kind, ids } => {
                    if kind == "submit" && ids.len() == 1 && w.fill_cids.contains(&ids[0]) {
                        return;
                    }
                    let t = w.tick();
                    let ring = w.drain_ring;
                    w.h.hooks.push(HookEv { t, vt: None, kind: HookKind::Received { kind, ids, ring } });
                }
                _ => {}
            }
        }
        return;
    };
    if let Site::BeforePush { free, .. } = site {
        LAST_FREE.with(|f| f.set(free));
    }
    // a vthread that was blocked on the registry's lock takes its turn again here
    case.baton.reattach(id);
    if let Site::BeforeRegister = site {
        // The registry's mutex: held by the collector during the whole drain on the pinned tree.
        // If it is held now the vthread gives the baton back and then really blocks on the mutex
        // (a true waiter: it gets the lock when the drain ends, or earlier if the collector
        // hands it over), registers, and waits for its turn at its next hook site. If the lock
        // is free in the middle of a cycle the registration simply happens there.
        let waited = fastrace::verif::registry_locked();
        {
            let mut w = case.w();
            let t = w.tick();
            w.h.hooks.push(HookEv { t, vt: Some(id), kind: HookKind::Register { waited } });
            w.h.label(if waited { "first_command_waited_for_the_registry_lock" } else { "first_command_registers_queue" });
        }
        if waited {
            case.baton.detach(id, Yield::BlockedOnRegistry);
        }
        return;
    }
    if matches!(site, Site::BeforeDrain { .. } | Site::RecvEmpty | Site::Received { .. }) && !IS_COLLECTOR.with(|c| c.get()) {
        // a program vthread is draining the queues: a collector cycle inside a tracing call.
        // Recorded once per cycle, never a yield point (the real collector vthread may be
        // waiting for the same locks).
        if let Site::BeforeDrain { .. } = site {
            let mut w = case.w();
            let t = w.tick();
            if w.h.host_cycles.last().map_or(true, |l| l.0 != id || l.1 + 1 != t) {
                w.h.host_cycles.push((id, t, "collector cycle (queue drain)"));
            }
        }
        return;
    }
    if NO_YIELD.with(|n| n.get()) {
        return;
    }
    let (kind, yield_name) = match site {
        Site::Command { kind, ids, force } => (HookKind::Command { kind, ids, force }, None),
        Site::BeforePush { free, pending, ring } => (HookKind::BeforePush { free, pending, ring }, Some("push")),
        Site::PushOutcome { ok } => (HookKind::PushOutcome { ok }, None),
        Site::BeforeDrain { ring } => (HookKind::BeforeDrain { ring }, Some("drain")),
        Site::RecvEmpty => (HookKind::RecvEmpty, Some("recv_empty")),
        Site::Received { kind, ids } => (HookKind::Received { kind, ids, ring: 0 }, if case.prog.fine { Some("recv") } else { None }),
        Site::BeforeRegister => unreachable!(),
    };
    {
        let mut w = case.w();
        let mut kind = kind;
        if let HookKind::BeforeDrain { ring } = &kind {
            w.drain_ring = *ring;
        }
        if let HookKind::Received { kind: k, ids, ring } = &mut kind {
            if *k == "submit" && ids.len() == 1 && w.fill_cids.contains(&ids[0]) {
                return; // filler submits are not logged one by one
            }
            *ring = w.drain_ring;
        }
        let t = w.tick();
        w.h.hooks.push(HookEv { t, vt: Some(id), kind });
    }
    if LOG_ONLY.with(|n| n.get()) {
        return;
    }
    if let Some(n) = yield_name {
        case.baton.yield_now(id, Yield::Site(n));
    }
}

pub enum Guard {
    Local(LocalSpan, Option<usize>),
    Parent(LocalParentGuard, Option<usize>),
    Coll(LocalCollector, Option<usize>),
}

pub use fastrace::local::LocalParentGuard;

pub struct VtCtx {
    pub case: Arc<Case>,
    pub id: usize,
    pub guards: Vec<Guard>,
    /// number of guards that belong to enclosing frames (mini programs must not pop below)
    pub floor: usize,
    pub reentrant_depth: u32,
    /// filler commands pushed by Bulk operations of this vthread (kept below the ring capacity)
    pub bulk_used: usize,
    /// the next popped guard is dropped by unwinding
    pub unwind_next_pop: bool,
    /// the next Event is built well before it is added (timing checks only)
    pub event_early: bool,
    /// spans created and kept by the poll in progress: the polled object takes them over
    pub kept_in_poll: Vec<usize>,
    /// local spans skipped because their scope was full: (index in `guards`, scope)
    pub skip_marks: Vec<(usize, usize)>,
}

fn payload_str(p: &Box<dyn Any + Send>) -> String {
    if let Some(s) = p.downcast_ref::<&str>() {
        s.to_string()
    } else if let Some(s) = p.downcast_ref::<String>() {
        s.clone()
    } else {
        "<non-string panic payload>".into()
    }
}

fn sel(i: u16, len: usize) -> usize {
    ((i as usize) * len) >> 16
}

struct QuietReset(bool);
impl Drop for QuietReset {
    fn drop(&mut self) {
        if self.0 {
            NO_YIELD.with(|x| x.set(false));
        }
    }
}

/// the guard's destructor runs while a panic unwinds through its frame (`thread::panicking()` is
/// true inside it); the panic is caught right outside and does not pass through the panic hook
fn drop_by_unwinding<G>(g: G) {
    struct Deliberate;
    let _ = catch_unwind(AssertUnwindSafe(move || {
        let _g = g;
        std::panic::resume_unwind(Box::new(Deliberate));
    }));
}

/// a hand-written function returning a boxed future, instrumented with `#[trace]`
#[fastrace::trace(name = "traced-boxed-fn", properties = { "tbx": "{x:?}" })]
pub fn traced_boxed(inner: crate::adapters::ScriptedFuture, x: BoxedArg) -> std::pin::Pin<Box<dyn std::future::Future<Output = u32> + Send>> {
    Box::pin(async move {
        let _keep = &x;
        inner.await
    })
}

/// argument of `traced_boxed`: counts how often the property expression of the attribute formats it
pub static BOXED_DEBUG_CALLS: AtomicU64 = AtomicU64::new(0);
pub struct BoxedArg(pub u32);
impl std::fmt::Debug for BoxedArg {
    fn fmt(&self, f: &mut std::fmt::Formatter<'_>) -> std::fmt::Result {
        BOXED_DEBUG_CALLS.fetch_add(1, Ordering::SeqCst);
        write!(f, "BA({})", self.0)
    }
}

thread_local! {
    /// which kind of iterator the next list of properties is passed as (per vthread, so a program
    /// always sees the same sequence)
    static ITER_SHAPE: Cell<u8> = const { Cell::new(0) };
}

pub fn next_shape() -> u8 {
    ITER_SHAPE.with(|c| {
        let v = c.get();
        c.set(v.wrapping_add(1));
        v
    })
}

/// The same items as `v`, in order, as an iterator whose size hint says as little as the trait
/// allows: exact (a vector), lower bound 0 (`filter`, `take_while`, `from_fn`), lower bound 1 with
/// more to come (`once().chain(filter)`), lower bound 1 and no upper bound (`successors`).
pub fn shaped<T: 'static>(v: Vec<T>, shape: u8) -> Box<dyn Iterator<Item = T>> {
    match shape % 7 {
        // a lazy iterator whose items are computed by code that uses the tracing API itself (it
        // asks for the thread's current context; nothing is recorded)
        6 => Box::new(v.into_iter().map(|x| {
            let _ = SpanContext::current_local_parent();
            x
        })),
        0 => Box::new(v.into_iter()),
        1 => Box::new(v.into_iter().filter(|_| true)),
        2 => {
            let mut it = v.into_iter();
            match it.next() {
                Some(first) => Box::new(std::iter::once(first).chain(it.filter(|_| true))),
                None => Box::new(std::iter::empty()),
            }
        }
        3 => {
            let mut it = v.into_iter();
            Box::new(std::iter::from_fn(move || it.next()))
        }
        4 => {
            let mut it = v.into_iter();
            // `successors` (lower bound 1, no upper bound) driving the hand-over of the items
            let mut first = it.next();
            let mut started = false;
            Box::new(std::iter::successors(Some(()), move |_| Some(())).map_while(move |_| {
                if !started {
                    started = true;
                    first.take()
                } else {
                    it.next()
                }
            }))
        }
        _ => Box::new(v.into_iter().take_while(|_| true)),
    }
}

fn tid(tc: u8, tr: u64, uniq: u32) -> u128 {
    match tc {
        0 => uniq as u128 + 1,
        1 => ((tr as u128) << 64) | (tr.rotate_left(17) as u128),
        2 => (1u128 << 127) | tr as u128,
        3 => u128::MAX,
        4 => 0,
        _ => 1u128 << (tr % 128),
    }
}

fn pid(pc: u8, pr: u64) -> u64 {
    match pc {
        0 => 0,
        1 => pr,
        2 => (1u64 << 63) | pr,
        3 => u64::MAX,
        _ => 1,
    }
}

#[fastrace::trace]
fn traced_sync(x: u32) -> u32 {
    x.wrapping_mul(3).wrapping_add(1)
}

#[fastrace::trace(short_name = true, properties = { "x": "{x:?}" })]
fn traced_props(x: CountingDebug) -> u32 {
    x.0
}

#[fastrace::trace]
async fn traced_async(x: u32) -> u32 {
    x + 1
}

#[fastrace::trace(enter_on_poll = true)]
async fn traced_async_eop(x: u32) -> u32 {
    x + 2
}

pub static DEBUG_CALLS: AtomicU64 = AtomicU64::new(0);
pub struct CountingDebug(pub u32);
impl std::fmt::Debug for CountingDebug {
    fn fmt(&self, f: &mut std::fmt::Formatter<'_>) -> std::fmt::Result {
        DEBUG_CALLS.fetch_add(1, Ordering::SeqCst);
        write!(f, "CD({})", self.0)
    }
}

pub fn noop_waker() -> std::task::Waker {
    use std::task::{RawWaker, RawWakerVTable, Waker};
    fn clone(_: *const ()) -> RawWaker {
        RawWaker::new(std::ptr::null(), &VTABLE)
    }
    fn noop(_: *const ()) {}
    static VTABLE: RawWakerVTable = RawWakerVTable::new(clone, noop, noop, noop);
    unsafe { Waker::from_raw(RawWaker::new(std::ptr::null(), &VTABLE)) }
}

impl VtCtx {
    fn w(&self) -> MutexGuard<'_, World> {
        self.case.w()
    }
    fn now(&self) -> u64 {
        if self.case.opts.brackets {
            let w = self.w();
            fastant::Instant::now().duration_since(w.case_start).as_nanos() as u64
        } else {
            0
        }
    }
    fn now_always(&self) -> u64 {
        let w = self.w();
        fastant::Instant::now().duration_since(w.case_start).as_nanos() as u64
    }

    /// run a library call, recording a panic instead of unwinding through the interpreter
    pub(crate) fn guarded<R>(&mut self, what: &str, f: impl FnOnce(&mut Self) -> R) -> Option<R> {
        match catch_unwind(AssertUnwindSafe(|| f(self))) {
            Ok(r) => Some(r),
            Err(p) => {
                let msg = payload_str(&p);
                let mut w = self.w();
                let t = w.tick();
                let vt = self.id;
                w.h.panics.push(PanicRec {
                    vt,
                    op: what.to_string(),
                    msg,
                    t,
                });
                None
            }
        }
    }

    // ----- model helpers -------------------------------------------------------------------

    /// (scope idx, innermost open local) of the thread's current local context
    fn top_scope(w: &World, vt: usize) -> Option<usize> {
        w.h.vts[vt].stack.last().copied()
    }

    fn push_span(w: &mut World, ms: MSpan, span: Span) -> usize {
        w.h.spans.push(ms);
        w.spans.push(Slot::Live(span));
        w.h.spans.len() - 1
    }

    /// items a child of `p` gets (issue_collect_token)
    fn issue(w: &World, p: usize) -> Vec<MItem> {
        w.h.spans[p]
            .items
            .iter()
            .map(|i| MItem {
                trace: i.trace,
                parent: PRef::Span(p),
                unit: i.unit,
                sampled: i.sampled,
            })
            .collect()
    }

    /// token of the thread's current local context (what enter_with_local_parent would get)
    pub(crate) fn local_token(w: &World, vt: usize) -> Option<Vec<MItem>> {
        let sc = Self::top_scope(w, vt)?;
        let scope = &w.h.scopes[sc];
        match &scope.kind {
            ScopeKind::Collector => None,
            ScopeKind::Parent { items, .. } => Some(
                items
                    .iter()
                    .map(|i| MItem {
                        trace: i.trace,
                        parent: match scope.open.last() {
                            Some(l) => PRef::Local(*l),
                            None => i.parent,
                        },
                        unit: i.unit,
                        sampled: i.sampled,
                    })
                    .collect(),
            ),
        }
    }

    fn has_dup_units(items: &[MItem]) -> bool {
        let mut seen = std::collections::HashSet::new();
        items.iter().filter(|i| i.sampled).any(|i| !seen.insert(i.unit))
    }

    /// known-finding shape: a later attachment whose target has several copies in one unit
    fn excluded_dup(&self, w: &mut World, items_dup: bool) -> bool {
        if items_dup && self.case.opts.excl("dup_unit_attach") {
            *w.h.excluded.entry("dup_unit_attach").or_insert(0) += 1;
            true
        } else {
            false
        }
    }

    fn top_scope_dup(w: &World, vt: usize) -> bool {
        // any enclosing parent scope up to the nearest collector carries the attachment
        match Self::top_scope(w, vt) {
            Some(sc) => match &w.h.scopes[sc].kind {
                ScopeKind::Parent { items, .. } => Self::has_dup_units(items),
                ScopeKind::Collector => false,
            },
            None => false,
        }
    }

    fn live_spans(w: &World) -> Vec<usize> {
        (0..w.spans.len()).filter(|i| w.spans[*i].is_live()).collect()
    }

    fn pick_span(w: &mut World, s: u16) -> Option<usize> {
        let live = Self::live_spans(w);
        if live.is_empty() {
            w.h.skipped_ops += 1;
            return None;
        }
        Some(live[sel(s, live.len())])
    }

    fn mk_props_closure_log(&self, api: &'static str, recording: bool, invoked: bool) {
        let mut w = self.w();
        let t = w.t;
        w.h.closures.push(ClosureCall {
            api,
            recording,
            invoked,
            t,
        });
    }

    fn to_cow(props: &[(String, String)]) -> Vec<(String, String)> {
        props.to_vec()
    }

    // ----- operations ----------------------------------------------------------------------

    fn finish_span_creation(
        &mut self,
        span: Span,
        mut ms: MSpan,
        props: Vec<(String, String)>,
        invoked: bool,
        api: &'static str,
        t0: T,
        c0: u64,
    ) -> usize {
        let api_id = catch_unwind(AssertUnwindSafe(|| SpanContext::from_span(&span)))
            .ok()
            .flatten()
            .map(|c| c.span_id.0);
        let c1 = self.now();
        let mut w = self.w();
        let t1 = w.tick();
        ms.create_t = (t0, t1);
        ms.br.c0 = c0;
        ms.br.c1 = c1;
        ms.api_id = api_id;
        let recording = !ms.noop && !ms.items.is_empty();
        let idx = Self::push_span(&mut w, ms, span);
        if !props.is_empty() {
            let t = w.t;
            w.h.closures.push(ClosureCall {
                api,
                recording,
                invoked,
                t,
            });
            if recording {
                let vt = self.id;
                w.h.atts.push(MAtt {
                    kind: AKind::Props(props),
                    target: ARef::Span(idx),
                    route: Route::Creation,
                    vt,
                    t: (t0, t1),
                    scope: None,
                    b0: 0,
                    b1: 0,
                });
            }
        }
        idx
    }

    pub(crate) fn blank_span(&self, name: String, how: &'static str) -> MSpan {
        MSpan {
            name,
            noop: false,
            is_root: false,
            items: vec![],
            create_vt: self.id,
            create_t: (0, 0),
            finish_vt: None,
            finish_t: None,
            cancel_t: vec![],
            cancel_vt: vec![],
            br: Bracket::default(),
            api_id: None,
            how,
            in_adapter: None,
            pre_reporter: false,
            cid: None,
        }
    }

    fn apply_props(span: Span, props: &[(String, String)], hit: &mut bool) -> Span {
        let shape = next_shape();
        if props.is_empty() {
            span
        } else if props.len() == 1 && shape % 2 == 0 {
            let p = props[0].clone();
            span.with_property(|| {
                *hit = true;
                p
            })
        } else {
            let p = props.to_vec();
            span.with_properties(|| {
                *hit = true;
                shaped(p, shape / 2)
            })
        }
    }

    pub fn op_root(&mut self, trace: u128, parent: u64, sampled: bool, np: u8, s: StrSeed, from: Option<PRef>, ctx: Option<SpanContext>) -> Option<usize> {
        let (name, props, t0, ready) = {
            let mut w = self.w();
            let t0 = w.tick();
            (w.name(s), w.props(s, np), t0, self.case.opts.reporter_ready)
        };
        let c0 = self.now();
        let ctx = ctx.unwrap_or_else(|| SpanContext::new(TraceId(trace), SpanId(parent)).sampled(sampled));
        let n2 = name.clone();
        let p2 = props.clone();
        let mut hit = false;
        let span = self.guarded("Span::root", |_| {
            let sp = Span::root(n2, ctx);
            Self::apply_props(sp, &p2, &mut hit)
        })?;
        let mut ms = self.blank_span(name, "root");
        let disabled = self.case.opts.disabled;
        if ready && !disabled {
            ms.is_root = true;
            let idx = self.w().h.spans.len();
            ms.items = vec![MItem {
                trace,
                parent: from.unwrap_or(PRef::Remote(parent)),
                unit: idx,
                sampled,
            }];
        } else {
            ms.noop = true;
            ms.pre_reporter = !ready;
        }
        if sampled && !ms.noop {
            let w = self.w();
            let me = self.id;
            ms.cid = w.h.hooks.iter().rev().take_while(|e| e.t > t0).find_map(|e| match (&e.kind, e.vt) {
                (HookKind::Command { kind: "start", ids, .. }, Some(vt)) if vt == me => ids.first().copied(),
                _ => None,
            });
        }
        Some(self.finish_span_creation(span, ms, props, hit, "Span::with_properties", t0, c0))
    }

    pub fn op_child(&mut self, parents: &[u16], np: u8, s: StrSeed) -> Option<usize> {
        // resolve and take parents
        let (name, props, t0, pidx) = {
            let mut w = self.w();
            let t0 = w.tick();
            let live = Self::live_spans(&w);
            if live.is_empty() && !parents.is_empty() {
                w.h.skipped_ops += 1;
                return None;
            }
            let pidx: Vec<usize> = parents.iter().map(|p| live[sel(*p, live.len())]).collect();
            (w.name(s), w.props(s, np), t0, pidx)
        };
        let mut uniq: Vec<usize> = pidx.clone();
        uniq.sort();
        uniq.dedup();
        let taken: Vec<(usize, Span)> = {
            let mut w = self.w();
            uniq.iter().map(|i| (*i, w.spans[*i].take().unwrap())).collect()
        };
        let c0 = self.now();
        let n2 = name.clone();
        let p2 = props.clone();
        let mut hit = false;
        let res = self.guarded("Span::enter_with_parent(s)", |_| {
            let refs: Vec<&Span> = pidx
                .iter()
                .map(|i| &taken.iter().find(|(j, _)| j == i).unwrap().1)
                .collect();
            // the parents are `impl IntoIterator<Item = &Span>`: a vector, or lazy iterators whose
            // size hints say little about what they yield (a huge or absent upper bound, lower 0)
            let shape = (s.l as usize + s.c as usize + refs.len()) % 8;
            let sp = if refs.len() == 1 && shape < 3 {
                Span::enter_with_parent(n2, refs[0])
            } else {
                match shape {
                    0 | 1 => Span::enter_with_parents(n2, refs),
                    2 => Span::enter_with_parents(n2, (0..usize::MAX).map_while(|i| refs.get(i).copied())),
                    3 => Span::enter_with_parents(n2, std::iter::repeat(()).take(usize::MAX).enumerate().map_while(|(i, _)| refs.get(i).copied())),
                    4 => Span::enter_with_parents(n2, std::iter::successors(Some(0usize), |i| Some(i + 1)).map_while(|i| refs.get(i).copied())),
                    // lower bound 1 with more to come; lower bound 0 with everything to come
                    5 => match refs.split_first() {
                        Some((first, rest)) => Span::enter_with_parents(n2, std::iter::once(*first).chain(rest.iter().copied().filter(|_| true))),
                        None => Span::enter_with_parents(n2, refs),
                    },
                    6 => Span::enter_with_parents(n2, refs.iter().copied().filter(|_| true)),
                    _ => {
                        let mut i = 0usize;
                        let first = refs.first().copied();
                        Span::enter_with_parents(
                            n2,
                            std::iter::successors(first, |_| {
                                i += 1;
                                refs.get(i).copied()
                            }),
                        )
                    }
                }
            };
            Self::apply_props(sp, &p2, &mut hit)
        });
        // model
        let mut ms = self.blank_span(name, if pidx.len() == 1 { "child" } else { "multi" });
        {
            let mut w = self.w();
            for (i, sp) in taken {
                w.spans[i] = Slot::Live(sp);
            }
            if self.case.opts.disabled {
                ms.noop = true;
            } else if pidx.len() == 1 && w.h.spans[pidx[0]].noop {
                ms.noop = true;
            } else {
                for p in &pidx {
                    if !w.h.spans[*p].noop {
                        ms.items.extend(Self::issue(&w, *p));
                    }
                }
                // a span without any recording parent belongs to no trace: it is a no-op span
                if ms.items.is_empty() {
                    ms.noop = true;
                }
            }
        }
        let span = res?;
        Some(self.finish_span_creation(span, ms, props, hit, "Span::with_properties", t0, c0))
    }

    pub fn op_noop(&mut self) {
        let t0 = self.w().tick();
        let mut ms = self.blank_span(String::new(), "noop");
        ms.noop = true;
        self.finish_span_creation(Span::noop(), ms, vec![], false, "", t0, 0);
    }

    pub fn op_child_of_local(&mut self, np: u8, s: StrSeed, how: &'static str) -> Option<usize> {
        let (name, props, t0) = {
            let mut w = self.w();
            let t0 = w.tick();
            (w.name(s), w.props(s, np), t0)
        };
        let c0 = self.now();
        let n2 = name.clone();
        let p2 = props.clone();
        let mut hit = false;
        let span = self.guarded("Span::enter_with_local_parent", |_| {
            let sp = Span::enter_with_local_parent(n2);
            Self::apply_props(sp, &p2, &mut hit)
        })?;
        let mut ms = self.blank_span(name, how);
        {
            let w = self.w();
            match Self::local_token(&w, self.id) {
                Some(items) if !self.case.opts.disabled => ms.items = items,
                _ => ms.noop = true,
            }
        }
        Some(self.finish_span_creation(span, ms, props, hit, "Span::with_properties", t0, c0))
    }

    fn open_scope(&mut self, kind: ScopeKind, by_adapter: Option<usize>) -> usize {
        let mut w = self.w();
        let t = w.tick();
        let vt = self.id;
        let sampled_any = match &kind {
            ScopeKind::Collector => true,
            ScopeKind::Parent { items, .. } => items.iter().any(|i| i.sampled),
        };
        let depth = w.h.vts[vt].stack.len();
        w.h.scopes.push(MScope {
            kind,
            vt,
            open_t: t,
            close_t: None,
            sampled_any,
            count: 0,
            skipped_open: 0,
            open: vec![],
            set: None,
            discarded: false,
            depth,
            by_adapter,
        });
        let sc = w.h.scopes.len() - 1;
        w.h.vts[vt].stack.push(sc);
        let v = w.new_ver();
        w.h.vts[vt].ctx_stack.push(v);
        sc
    }

    pub fn op_set_local_parent(&mut self, span_sel: u16, probe: bool) {
        let Some(idx) = Self::pick_span(&mut self.w(), span_sel) else { return };
        if probe {
            self.op_probe();
        }
        self.set_local_parent_of(idx, None);
    }

    /// returns true if a guard was pushed
    pub fn set_local_parent_of(&mut self, idx: usize, by_adapter: Option<usize>) {
        let Some(span) = self.w().spans[idx].take() else { return };
        let g = self.guarded("Span::set_local_parent", |_| span.set_local_parent());
        let (noop, items, depth) = {
            let mut w = self.w();
            w.spans[idx] = Slot::Live(span);
            let depth = w.h.vts[self.id].stack.len();
            (w.h.spans[idx].noop, Self::issue(&w, idx), depth)
        };
        let Some(g) = g else { return };
        if noop || depth >= 4096 || self.case.opts.disabled {
            if depth >= 4096 {
                self.w().h.limit_hit = true;
            }
            self.guards.push(Guard::Parent(g, None));
        } else {
            let sc = self.open_scope(ScopeKind::Parent { span: idx, items }, by_adapter);
            self.guards.push(Guard::Parent(g, Some(sc)));
        }
    }

    pub fn op_enter_local(&mut self, np: u8, s: StrSeed, probe: bool, via: &'static str) {
        self.op_enter_local_re(np, s, probe, via, &[])
    }

    pub fn op_enter_local_re(&mut self, np: u8, s: StrSeed, probe: bool, via: &'static str, re: &[Mini]) {
        if probe {
            self.op_probe();
        }
        let (name, props) = {
            let mut w = self.w();
            w.tick();
            (w.name(s), w.props(s, np))
        };
        // builder calls made some time after the span was entered (timing profiles only)
        let late = self.case.opts.brackets && !props.is_empty() && next_shape() % 3 == 0;
        // the builder call is made while another scope (a collector that is then abandoned) is
        // open above the span: the properties still belong to the span they are given to
        let mut shadowed = !props.is_empty() && re.is_empty() && !self.case.opts.disabled && self.reentrant_depth == 0 && s.l % 5 == 0;
        if shadowed && self.case.opts.excl("shadowed_builder") {
            // known finding (C07): with debug assertions the call panics and the unwinding panics
            // again, which ends the process
            *self.w().h.excluded.entry("shadowed_builder").or_insert(0) += 1;
            shadowed = false;
        }
        if (re.is_empty() && !late && !shadowed) || props.is_empty() || self.reentrant_depth > 0 {
            self.enter_local_named(name, props, via);
        } else {
            self.enter_local_reentrant(name, props, via, re, if late { 40 } else { 0 }, shadowed);
        }
    }

    /// `LocalSpan::enter_with_local_parent(name).with_properties(closure)` where the closure uses
    /// the tracing API itself: the span is entered (and modelled) first, the closure's calls run
    /// inside it, then its properties are attached to it
    fn enter_local_reentrant(&mut self, name: String, props: Vec<(String, String)>, via: &'static str, re: &[Mini], spin_us: u64, shadowed: bool) {
        let before = self.guards.len();
        self.enter_local_named(name, vec![], via);
        if self.guards.len() != before + 1 {
            return;
        }
        if spin_us > 0 {
            // the span is running: attaching its properties later does not move its begin
            self.w().h.label("properties_attached_after_a_while");
            let t = fastant::Instant::now();
            while (t.elapsed().as_micros() as u64) < spin_us {
                std::hint::spin_loop();
            }
        }
        let Some(Guard::Local(l, li)) = self.guards.pop() else { unreachable!() };
        // the guard stays off the stack while the closure runs: it cannot be popped by the
        // closure's own operations (they work above their own floor)
        let t0 = self.w().tick();
        let p2 = props.clone();
        let mut hit = false;
        if shadowed {
            self.w().h.label("builder_call_under_a_nested_scope");
        }
        let l2 = self.guarded("LocalSpan::with_properties", |me| {
            let above = if shadowed { Some(LocalCollector::start()) } else { None };
            let l = l.with_properties(|| {
                hit = true;
                me.run_re(re);
                shaped(p2, next_shape())
            });
            drop(above);
            l
        });
        let mut w = self.w();
        let t1 = w.tick();
        let vt = self.id;
        w.h.closures.push(ClosureCall { api: "LocalSpan::with_properties", recording: li.is_some(), invoked: hit, t: t1 });
        if let (Some(li), true) = (li, l2.is_some()) {
            let sc = w.h.locals[li].scope;
            w.h.atts.push(MAtt { kind: AKind::Props(props), target: ARef::Local(li), route: Route::Creation, vt, t: (t0, t1), scope: Some(sc), b0: 0, b1: 0 });
        }
        drop(w);
        match l2 {
            Some(l2) => self.guards.push(Guard::Local(l2, li)),
            None => {
                // the closure panicked: the span was dropped by the unwinding
                let f = self.now();
                self.close_local_model(li, f, f);
            }
        }
    }

    pub fn enter_local_named(&mut self, name: String, props: Vec<(String, String)>, via: &'static str) -> Option<usize> {
        let b0 = self.now();
        let n2 = name.clone();
        let p2 = props.clone();
        let mut hit = false;
        let ls = self.guarded("LocalSpan::enter_with_local_parent", |_| {
            let l = LocalSpan::enter_with_local_parent(n2);
            let shape = next_shape();
            if p2.is_empty() {
                l
            } else if p2.len() == 1 && shape % 2 == 0 {
                let p = p2[0].clone();
                l.with_property(|| {
                    hit = true;
                    p
                })
            } else {
                l.with_properties(|| {
                    hit = true;
                    shaped(p2, shape / 2)
                })
            }
        })?;
        let b1 = self.now();
        let mut w = self.w();
        let t = w.tick();
        let vt = self.id;
        let mut skipped_in = None;
        let rec = match Self::top_scope(&w, vt) {
            Some(sc) if !self.case.opts.disabled => {
                let scope = &w.h.scopes[sc];
                if scope.sampled_any && scope.count < 10240 {
                    Some(sc)
                } else {
                    let (full, sampled) = (scope.count >= 10240, scope.sampled_any);
                    if full {
                        w.h.limit_hit = true;
                        if sampled {
                            skipped_in = Some(sc);
                        }
                    }
                    None
                }
            }
            _ => None,
        };
        if !props.is_empty() {
            w.h.closures.push(ClosureCall {
                api: "LocalSpan::with_properties",
                recording: rec.is_some(),
                invoked: hit,
                t,
            });
        }
        let li = match rec {
            Some(sc) => {
                let parent = w.h.scopes[sc].open.last().copied();
                let depth = w.h.scopes[sc].open.len();
                w.h.locals.push(MLocal {
                    name,
                    scope: sc,
                    parent,
                    vt,
                    enter_t: t,
                    exit_t: None,
                    br: Bracket {
                        c0: b0,
                        c1: b1,
                        f0: 0,
                        f1: 0,
                    },
                    open_at_collect: false,
                    depth,
                    via,
                });
                let li = w.h.locals.len() - 1;
                w.h.scopes[sc].open.push(li);
                w.h.scopes[sc].count += 1;
                let v = w.new_ver();
                w.h.vts[vt].ctx_stack.push(v);
                if !props.is_empty() {
                    w.h.atts.push(MAtt {
                        kind: AKind::Props(props),
                        target: ARef::Local(li),
                        route: Route::Creation,
                        vt,
                        t: (t, t),
                        scope: Some(sc),
                        b0: 0,
                        b1: 0,
                    });
                }
                Some(li)
            }
            None => {
                w.h.dark_names.push(name);
                w.h.dark_names.extend(props.iter().map(|(k, _)| k.clone()));
                None
            }
        };
        if let Some(sc) = skipped_in {
            w.h.scopes[sc].skipped_open += 1;
        }
        drop(w);
        if let Some(sc) = skipped_in {
            self.skip_marks.push((self.guards.len(), sc));
        }
        self.guards.push(Guard::Local(ls, li));
        li
    }

    pub fn op_collector_start(&mut self, probe: bool) {
        if probe {
            self.op_probe();
        }
        let Some(c) = self.guarded("LocalCollector::start", |_| LocalCollector::start()) else { return };
        let depth = self.w().h.vts[self.id].stack.len();
        if depth >= 4096 || self.case.opts.disabled {
            self.guards.push(Guard::Coll(c, None));
        } else {
            let sc = self.open_scope(ScopeKind::Collector, None);
            self.guards.push(Guard::Coll(c, Some(sc)));
        }
    }

    fn close_local_model(&mut self, li: Option<usize>, f0: u64, f1: u64) {
        if let Some(li) = li {
            let mut w = self.w();
            let t = w.tick();
            let vt = self.id;
            if w.h.locals[li].exit_t.is_none() {
                w.h.locals[li].exit_t = Some(t);
                w.h.locals[li].br.f0 = f0;
                w.h.locals[li].br.f1 = f1;
                let sc = w.h.locals[li].scope;
                if w.h.scopes[sc].open.last() == Some(&li) {
                    w.h.scopes[sc].open.pop();
                    w.h.vts[vt].ctx_stack.pop();
                }
            }
        }
    }

    fn close_scope_model(&mut self, sc: usize, t0: T) -> T {
        let mut w = self.w();
        let t1 = w.tick();
        let vt = self.id;
        w.h.scopes[sc].close_t = Some((t0, t1));
        if w.h.vts[vt].stack.last() == Some(&sc) {
            w.h.vts[vt].stack.pop();
            w.h.vts[vt].ctx_stack.pop();
        }
        t1
    }

    pub fn op_pop_guard(&mut self, collect: bool, early: bool) {
        if self.guards.len() <= self.floor {
            self.w().h.skipped_ops += 1;
            return;
        }
        // early collect: [Coll(outermost), Local x k] with 1<=k<=3
        if early && self.floor == 0 && self.guards.len() >= 2 && self.guards.len() <= 4 && !std::thread::panicking() {
            let shape_ok = matches!(self.guards[0], Guard::Coll(_, Some(_)))
                && self.guards[1..].iter().all(|g| matches!(g, Guard::Local(_, _)));
            if shape_ok {
                let Guard::Coll(c, Some(sc)) = self.guards.remove(0) else { unreachable!() };
                if collect {
                    self.collect_collector(c, sc, true);
                } else {
                    // the collector is abandoned (dropped without collect()) while local spans
                    // of its scope are still open; their guards are dropped right afterwards
                    self.w().h.label("early_discard");
                    let t0 = self.w().tick();
                    self.guarded("LocalCollector::drop", |_| drop(c));
                    let t1 = self.close_scope_model(sc, t0);
                    let mut w = self.w();
                    let vt = self.id;
                    w.h.scopes[sc].discarded = true;
                    let open: Vec<usize> = std::mem::take(&mut w.h.scopes[sc].open);
                    for li in open {
                        w.h.locals[li].exit_t = Some(t1);
                        w.h.vts[vt].ctx_stack.pop();
                    }
                }
                while let Some(g) = self.guards.pop() {
                    if let Guard::Local(l, li) = g {
                        self.guarded("LocalSpan::drop(after collect)", |_| drop(l));
                        let _ = li;
                    }
                }
                self.w().h.label("early_collect");
                return;
            }
        }
        if std::thread::panicking() {
            // a second unwinding inside a destructor that runs during unwinding is not something
            // the harness may do to the process
            self.unwind_next_pop = false;
        }
        let g = self.guards.pop().unwrap();
        if let Some((at, sc)) = self.skip_marks.last().copied() {
            if at == self.guards.len() {
                self.skip_marks.pop();
                let mut w = self.w();
                w.h.scopes[sc].skipped_open = w.h.scopes[sc].skipped_open.saturating_sub(1);
            }
        }
        let unwind = self.unwind_next_pop;
        if unwind {
            self.w().h.label("guard_dropped_by_unwinding");
        }
        match g {
            Guard::Local(l, li) => {
                let f0 = self.now();
                if unwind {
                    drop_by_unwinding(l);
                } else {
                    self.guarded("LocalSpan::drop", |_| drop(l));
                }
                let f1 = self.now();
                self.close_local_model(li, f0, f1);
            }
            Guard::Parent(g, sc) => {
                let t0 = self.w().tick();
                if unwind {
                    drop_by_unwinding(g);
                } else {
                    self.guarded("LocalParentGuard::drop", |_| drop(g));
                }
                if let Some(sc) = sc {
                    self.close_scope_model(sc, t0);
                }
            }
            Guard::Coll(c, sc) => match sc {
                Some(sc) if collect => self.collect_collector(c, sc, false),
                Some(sc) => {
                    let t0 = self.w().tick();
                    self.guarded("LocalCollector::drop", |_| drop(c));
                    self.close_scope_model(sc, t0);
                    self.w().h.scopes[sc].discarded = true;
                }
                None => {
                    self.guarded("LocalCollector::drop", |_| drop(c));
                }
            },
        }
    }

    fn collect_collector(&mut self, c: LocalCollector, sc: usize, early: bool) {
        let t0 = self.w().tick();
        let b0 = self.now();
        let set = self.guarded("LocalCollector::collect", |_| c.collect());
        let b1 = self.now();
        let t1 = self.close_scope_model(sc, t0);
        let mut w = self.w();
        let vt = self.id;
        // spans still open at collect are closed at collection time
        let open: Vec<usize> = std::mem::take(&mut w.h.scopes[sc].open);
        for li in open {
            w.h.locals[li].open_at_collect = true;
            w.h.locals[li].exit_t = Some(t1);
            w.h.locals[li].br.f0 = b0;
            w.h.locals[li].br.f1 = b1;
            w.h.vts[vt].ctx_stack.pop();
        }
        let _ = early;
        if let Some(set) = set {
            let empty = w.h.scopes[sc].count == 0;
            // what the collector scope recorded, as the set itself tells (a pure conversion)
            let recs = catch_unwind(AssertUnwindSafe(|| set.to_span_records(SpanContext::new(TraceId(1), SpanId(1))))).unwrap_or_default();
            let snapshot: Vec<String> = recs.iter().map(|r| r.name.to_string()).collect();
            let snapshot_events: Vec<String> = recs.iter().flat_map(|r| r.events.iter().map(|e| e.name.to_string())).collect();
            w.h.sets.push(MSet {
                scope: sc,
                b0,
                b1,
                t: t1,
                empty,
                snapshot,
                snapshot_events,
            });
            w.sets.push(Some(set));
            let si = w.h.sets.len() - 1;
            w.h.scopes[sc].set = Some(si);
        } else {
            w.h.scopes[sc].discarded = true;
        }
    }

    pub fn op_push_child_spans(&mut self, span_sel: u16, set_sel: u16, last: bool) {
        let (idx, si, set) = {
            let mut w = self.w();
            if w.sets.is_empty() {
                w.h.skipped_ops += 1;
                return;
            }
            let Some(idx) = Self::pick_span(&mut w, span_sel) else { return };
            let si = sel(set_sel, w.sets.len());
            let sc = w.h.sets[si].scope;
            let set_has_atts = w.h.atts.iter().any(|a| a.scope == Some(sc) && a.route == Route::Local);
            let units: Vec<usize> = w.h.spans[idx].items.iter().filter(|i| i.sampled).map(|i| i.unit).collect();
            let already = w.h.pushes.iter().any(|p| p.set == si && w.h.spans[p.span].items.iter().any(|i| i.sampled && units.contains(&i.unit)));
            let d = set_has_atts && (Self::has_dup_units(&w.h.spans[idx].items) || already);
            if self.excluded_dup(&mut w, d) {
                return;
            }
            // `last`: the set is pushed by value and the harness keeps no clone, so the collector
            // ends up with the only reference
            let set = if last { w.sets[si].take() } else { w.sets[si].clone() };
            let Some(set) = set else {
                w.h.skipped_ops += 1;
                return;
            };
            if last {
                w.h.label("push_last_handle");
            }
            (idx, si, set)
        };
        let Some(span) = self.w().spans[idx].take() else {
            if last {
                self.w().sets[si] = Some(set);
            }
            return;
        };
        let t0 = self.w().tick();
        self.guarded("Span::push_child_spans", |_| span.push_child_spans(set));
        let mut w = self.w();
        let t1 = w.tick();
        w.spans[idx] = Slot::Live(span);
        let vt = self.id;
        if !w.h.spans[idx].noop {
            w.h.pushes.push(MPush {
                span: idx,
                set: si,
                t: (t0, t1),
                vt,
            });
        }
    }

    pub fn op_to_span_records(&mut self, set_sel: u16, tc: u8, tr: u64, pr: u64) {
        let (si, set, trace) = {
            let mut w = self.w();
            if w.sets.is_empty() {
                w.h.skipped_ops += 1;
                return;
            }
            let si = sel(set_sel, w.sets.len());
            let u = w.uniq();
            let Some(set) = w.sets[si].clone() else {
                w.h.skipped_ops += 1;
                return;
            };
            (si, set, tid(tc, tr, u))
        };
        let wall0 = wall_ns();
        let recs = self.guarded("LocalSpans::to_span_records", |_| {
            set.to_span_records(SpanContext::new(TraceId(trace), SpanId(pr)))
        });
        let wall1 = wall_ns();
        if let Some(records) = recs {
            let mut w = self.w();
            let t = w.tick();
            w.h.convs.push(MConv {
                set: si,
                trace,
                parent: pr,
                records,
                t,
                wall0,
                wall1,
            });
        }
    }

    fn run_re(&mut self, re: &[Mini]) {
        if !re.is_empty() {
            self.w().h.label("reentrant_closure");
            self.reentrant_depth += 1;
            let floor = self.floor;
            self.floor = self.guards.len();
            self.run_mini(re, None);
            self.pop_to_floor();
            self.floor = floor;
            self.reentrant_depth -= 1;
        }
    }

    pub fn pop_to_floor(&mut self) {
        while self.guards.len() > self.floor {
            self.op_pop_guard(true, false);
        }
    }

    pub fn op_add_props(&mut self, handle: Option<u16>, n: u8, s: StrSeed, re: &[Mini]) {
        let props = {
            let mut w = self.w();
            w.tick();
            w.props(s, n.max(1))
        };
        self.add_props_with(handle, props, re);
    }

    /// A span's property is updated: the first key of an earlier attachment to the same target is
    /// used again, with a value of its own (properties are a list, not a map: both pairs are
    /// delivered, in the order they were attached).
    fn reuse_key(w: &mut World, target: ARef, props: &mut Vec<(String, String)>) {
        // (the keys of context probes stay unique: the frame condition identifies probes by key)
        if props.is_empty() || w.t % 3 != 0 || props[0].0.starts_with("probe-k") {
            return;
        }
        let earlier = w.h.atts.iter().rev().find_map(|a| match (&a.kind, a.target == target) {
            (AKind::Props(ps), true) => ps.first().map(|p| p.0.clone()).filter(|k| !k.starts_with("probe-k")),
            _ => None,
        });
        if let Some(k) = earlier {
            let u = w.uniq();
            props[0].0 = k;
            props[0].1 = format!("{}#{}", props[0].1, u);
            w.h.label("property_key_attached_again");
        }
    }

    pub fn add_props_with(&mut self, handle: Option<u16>, props: Vec<(String, String)>, re: &[Mini]) {
        let mut props = props;
        match handle {
            Some(hs) => {
                let Some(idx) = Self::pick_span(&mut self.w(), hs) else { return };
                Self::reuse_key(&mut self.w(), ARef::Span(idx), &mut props);
                {
                    let mut w = self.w();
                    let d = Self::has_dup_units(&w.h.spans[idx].items);
                    if self.excluded_dup(&mut w, d) {
                        return;
                    }
                }
                let Some(span) = self.w().spans[idx].take() else { return };
                let t0 = self.w().tick();
                let p2 = props.clone();
                let mut hit = false;
                let shape = next_shape();
                self.guarded("Span::add_properties", |me| {
                    if p2.len() == 1 && shape % 2 == 0 {
                        let p = p2[0].clone();
                        span.add_property(|| {
                            hit = true;
                            me.run_re(re);
                            p
                        })
                    } else {
                        span.add_properties(|| {
                            hit = true;
                            me.run_re(re);
                            shaped(p2, shape / 2)
                        })
                    }
                });
                let mut w = self.w();
                let t1 = w.tick();
                w.spans[idx] = Slot::Live(span);
                let recording = !w.h.spans[idx].noop && !w.h.spans[idx].items.is_empty();
                w.h.closures.push(ClosureCall {
                    api: "Span::add_properties",
                    recording,
                    invoked: hit,
                    t: t1,
                });
                if recording {
                    let vt = self.id;
                    w.h.atts.push(MAtt {
                        kind: AKind::Props(props),
                        target: ARef::Span(idx),
                        route: Route::Handle,
                        vt,
                        t: (t0, t1),
                        scope: None,
                        b0: 0,
                        b1: 0,
                    });
                }
            }
            None => {
                {
                    let mut w = self.w();
                    let d = Self::top_scope_dup(&w, self.id);
                    if self.excluded_dup(&mut w, d) {
                        return;
                    }
                }
                {
                    let mut w = self.w();
                    let vt = self.id;
                    if let Some(sc) = Self::top_scope(&w, vt) {
                        let target = match w.h.scopes[sc].open.last() {
                            Some(l) => ARef::Local(*l),
                            None => ARef::ScopeRoot(sc),
                        };
                        Self::reuse_key(&mut w, target, &mut props);
                    }
                }
                let t0 = self.w().tick();
                let p2 = props.clone();
                let mut hit = false;
                self.guarded("LocalSpan::add_properties", |me| {
                    if p2.len() == 1 {
                        let p = p2[0].clone();
                        LocalSpan::add_property(|| {
                            hit = true;
                            me.run_re(re);
                            p
                        })
                    } else {
                        LocalSpan::add_properties(|| {
                            hit = true;
                            me.run_re(re);
                            shaped(p2, next_shape())
                        })
                    }
                });
                let mut w = self.w();
                let t1 = w.tick();
                let vt = self.id;
                let tgt = Self::local_attach_target(&mut w, vt);
                w.h.closures.push(ClosureCall {
                    api: "LocalSpan::add_properties",
                    recording: tgt.is_some(),
                    invoked: hit,
                    t: t1,
                });
                if tgt.is_none() {
                    w.h.dark_names.extend(props.iter().map(|(k, _)| k.clone()));
                }
                if let Some((target, sc)) = tgt {
                    w.h.atts.push(MAtt {
                        kind: AKind::Props(props),
                        target,
                        route: Route::Local,
                        vt,
                        t: (t0, t1),
                        scope: Some(sc),
                        b0: 0,
                        b1: 0,
                    });
                }
            }
        }
    }

    /// where a local-route attachment lands per the model; consumes one queue slot
    fn local_attach_target(w: &mut World, vt: usize) -> Option<(ARef, usize)> {
        let sc = Self::top_scope(w, vt)?;
        let scope = &mut w.h.scopes[sc];
        if !scope.sampled_any {
            return None;
        }
        if scope.count >= 10240 {
            // Beyond the scope limit the record is omitted. If it is delivered all the same it
            // must still sit on its own target: a "may" attachment when that target is a recorded
            // span, nowhere when the innermost open local span was itself skipped.
            let skipped = scope.skipped_open;
            let target = match scope.open.last() {
                Some(l) => ARef::Local(*l),
                None => ARef::ScopeRoot(sc),
            };
            w.h.limit_hit = true;
            if skipped > 0 {
                return None;
            }
            let next = w.h.atts.len();
            w.h.overflow_atts.insert(next);
            return Some((target, sc));
        }
        scope.count += 1;
        Some(match scope.open.last() {
            Some(l) => (ARef::Local(*l), sc),
            None => (ARef::ScopeRoot(sc), sc),
        })
    }

    pub fn op_add_event(&mut self, handle: Option<u16>, n: u8, s: StrSeed, re: &[Mini]) {
        let (name, props) = {
            let mut w = self.w();
            w.tick();
            (w.name(s), w.props(s, n))
        };
        if s.l % 4 == 3 {
            self.add_event_deprecated(handle, name, props, re);
        } else {
            self.event_early = s.l % 4 == 2 && self.case.opts.brackets;
            self.add_event_named(handle, name, props, re);
            self.event_early = false;
        }
    }

    /// the deprecated (but public) `Event::add_to_parent` / `Event::add_to_local_parent`
    #[allow(deprecated)]
    fn add_event_deprecated(&mut self, handle: Option<u16>, name: String, props: Vec<(String, String)>, re: &[Mini]) {
        use std::borrow::Cow;
        let cow = |p: &[(String, String)]| -> Vec<(Cow<'static, str>, Cow<'static, str>)> { p.iter().map(|(k, v)| (Cow::Owned(k.clone()), Cow::Owned(v.clone()))).collect() };
        self.w().h.label("deprecated_event_api");
        match handle {
            Some(hs) => {
                let Some(idx) = Self::pick_span(&mut self.w(), hs) else { return };
                {
                    let mut w = self.w();
                    let d = Self::has_dup_units(&w.h.spans[idx].items);
                    if self.excluded_dup(&mut w, d) {
                        return;
                    }
                }
                let Some(span) = self.w().spans[idx].take() else { return };
                let t0 = self.w().tick();
                let b0 = self.now();
                let (n2, p2) = (name.clone(), cow(&props));
                self.guarded("Event::add_to_parent", |me| {
                    Event::add_to_parent(n2, &span, || {
                        me.run_re(re);
                        p2
                    })
                });
                let b1 = self.now();
                let mut w = self.w();
                let t1 = w.tick();
                w.spans[idx] = Slot::Live(span);
                if !w.h.spans[idx].noop {
                    let vt = self.id;
                    w.h.atts.push(MAtt { kind: AKind::Event { name, props }, target: ARef::Span(idx), route: Route::Handle, vt, t: (t0, t1), scope: None, b0, b1 });
                }
            }
            None => {
                {
                    let mut w = self.w();
                    let d = Self::top_scope_dup(&w, self.id);
                    if self.excluded_dup(&mut w, d) {
                        return;
                    }
                }
                let t0 = self.w().tick();
                let b0 = self.now();
                let (n2, p2) = (name.clone(), cow(&props));
                self.guarded("Event::add_to_local_parent", |me| {
                    Event::add_to_local_parent(n2, || {
                        me.run_re(re);
                        p2
                    })
                });
                let b1 = self.now();
                let mut w = self.w();
                let t1 = w.tick();
                let vt = self.id;
                match Self::local_attach_target(&mut w, vt) {
                    Some((target, sc)) => w.h.atts.push(MAtt { kind: AKind::Event { name, props }, target, route: Route::Local, vt, t: (t0, t1), scope: Some(sc), b0, b1 }),
                    None => {
                        w.h.dark_names.push(name);
                        w.h.dark_names.extend(props.into_iter().map(|(k, _)| k));
                    }
                }
            }
        }
    }

    pub fn add_event_named(&mut self, handle: Option<u16>, name: String, props: Vec<(String, String)>, re: &[Mini]) {
        if handle.is_none() {
            let mut w = self.w();
            let d = Self::top_scope_dup(&w, self.id);
            if self.excluded_dup(&mut w, d) {
                return;
            }
        }
        let p2 = props.clone();
        let n2 = name.clone();
        let mut hit = false;
        let disabled = self.case.opts.disabled;
        let ev = self.guarded("Event::with_properties", |me| {
            let e = Event::new(n2);
            if p2.is_empty() {
                e
            } else if p2.len() == 1 {
                let p = p2[0].clone();
                e.with_property(|| {
                    hit = true;
                    me.run_re(re);
                    p
                })
            } else {
                e.with_properties(|| {
                    hit = true;
                    me.run_re(re);
                    shaped(p2, next_shape())
                })
            }
        });
        let Some(ev) = ev else { return };
        if self.event_early {
            // an Event value prepared ahead of time: it is recorded when it is added
            self.w().h.label("event_built_early");
            let t = fastant::Instant::now();
            while t.elapsed().as_micros() < 40 {
                std::hint::spin_loop();
            }
        }
        if !props.is_empty() {
            // Event closures are evaluated eagerly when tracing is compiled in; only the disabled
            // build promises laziness.
            self.mk_props_closure_log("Event::with_properties", !disabled, hit);
        }
        match handle {
            Some(hs) => {
                let Some(idx) = Self::pick_span(&mut self.w(), hs) else { return };
                {
                    let mut w = self.w();
                    let d = Self::has_dup_units(&w.h.spans[idx].items);
                    if self.excluded_dup(&mut w, d) {
                        return;
                    }
                }
                let Some(span) = self.w().spans[idx].take() else { return };
                let t0 = self.w().tick();
                let b0 = self.now();
                self.guarded("Span::add_event", |_| span.add_event(ev));
                let b1 = self.now();
                let mut w = self.w();
                let t1 = w.tick();
                w.spans[idx] = Slot::Live(span);
                if !w.h.spans[idx].noop {
                    let vt = self.id;
                    w.h.atts.push(MAtt {
                        kind: AKind::Event { name, props },
                        target: ARef::Span(idx),
                        route: Route::Handle,
                        vt,
                        t: (t0, t1),
                        scope: None,
                        b0,
                        b1,
                    });
                }
            }
            None => {
                let t0 = self.w().tick();
                let b0 = self.now();
                self.guarded("LocalSpan::add_event", |_| LocalSpan::add_event(ev));
                let b1 = self.now();
                let mut w = self.w();
                let t1 = w.tick();
                let vt = self.id;
                match Self::local_attach_target(&mut w, vt) {
                    Some((target, sc)) => w.h.atts.push(MAtt {
                        kind: AKind::Event { name, props },
                        target,
                        route: Route::Local,
                        vt,
                        t: (t0, t1),
                        scope: Some(sc),
                        b0,
                        b1,
                    }),
                    None => {
                        // nothing records here (no scope, an unsampled one, or a full one): the
                        // names must never show up anywhere
                        w.h.dark_names.push(name);
                        w.h.dark_names.extend(props.into_iter().map(|(k, _)| k));
                    }
                }
            }
        }
    }

    pub fn op_finish(&mut self, span_sel: u16) {
        let Some(idx) = Self::pick_span(&mut self.w(), span_sel) else { return };
        self.finish_idx(idx);
    }

    pub fn finish_idx(&mut self, idx: usize) {
        let span = {
            let mut w = self.w();
            match std::mem::replace(&mut w.spans[idx], Slot::Gone) {
                Slot::Live(s) => s,
                other => {
                    w.spans[idx] = other;
                    return;
                }
            }
        };
        let t0 = self.w().tick();
        let f0 = self.now();
        self.guarded("Span::drop", |_| drop(span));
        let f1 = self.now();
        let mut w = self.w();
        let t1 = w.tick();
        let vt = self.id;
        let ms = &mut w.h.spans[idx];
        ms.finish_t = Some((t0, t1));
        ms.finish_vt = Some(vt);
        ms.br.f0 = f0;
        ms.br.f1 = f1;
        if ms.create_vt != vt && !ms.noop {
            w.h.label("handoff_finish");
        }
    }

    pub fn op_cancel(&mut self, span_sel: u16) {
        let Some(idx) = Self::pick_span(&mut self.w(), span_sel) else { return };
        let Some(span) = self.w().spans[idx].take() else { return };
        let t0 = self.w().tick();
        self.guarded("Span::cancel", |_| span.cancel());
        let mut w = self.w();
        let t1 = w.tick();
        w.spans[idx] = Slot::Live(span);
        w.h.spans[idx].cancel_t.push((t0, t1));
        let vt = self.id;
        w.h.spans[idx].cancel_vt.push(vt);
    }

    pub fn op_ctx_of_span(&mut self, span_sel: u16) {
        let Some(idx) = Self::pick_span(&mut self.w(), span_sel) else { return };
        let Some(span) = self.w().spans[idx].take() else { return };
        let obs = self.guarded("SpanContext::from_span", |_| SpanContext::from_span(&span));
        let mut w = self.w();
        let t = w.tick();
        w.spans[idx] = Slot::Live(span);
        let Some(obs) = obs else { return };
        let ms = &w.h.spans[idx];
        let exp = if ms.noop || ms.items.is_empty() {
            None
        } else {
            Some(ExpCtx {
                trace: ms.items[0].trace,
                who: PRef::Span(idx),
                sampled: ms.items[0].sampled,
            })
        };
        let multi_parent = ms.items.len() > 1;
        w.h.ctxs.push(MCtx {
            src: CtxSrc::Span(idx),
            exp,
            obs: obs.map(|c| (c.trace_id.0, c.span_id.0, c.sampled)),
            t,
            open_locals: 0,
            multi_parent,
        });
        let ci = w.h.ctxs.len() - 1;
        if let Some(c) = obs {
            w.ctxs.push((c, ci));
        }
    }

    /// model expectation for current_local_parent(); Err(()) = shape excluded (known finding)
    fn expected_clp(w: &World, vt: usize) -> (Option<ExpCtx>, usize, bool, bool) {
        match Self::top_scope(w, vt) {
            None => (None, 0, false, false),
            Some(sc) => {
                let scope = &w.h.scopes[sc];
                match &scope.kind {
                    ScopeKind::Collector => (None, scope.open.len(), false, false),
                    ScopeKind::Parent { items, span } => {
                        if items.is_empty() {
                            (None, 0, false, true)
                        } else {
                            let who = match scope.open.last() {
                                Some(l) => PRef::Local(*l),
                                None => PRef::Span(*span),
                            };
                            (
                                Some(ExpCtx {
                                    trace: items[0].trace,
                                    who,
                                    sampled: items[0].sampled,
                                }),
                                scope.open.len(),
                                items.len() > 1,
                                false,
                            )
                        }
                    }
                }
            }
        }
    }

    pub fn op_ctx_of_local(&mut self) -> Option<Option<(u128, u64, bool)>> {
        let (exp, open_locals, multi_parent, empty_token) = {
            let w = self.w();
            Self::expected_clp(&w, self.id)
        };
        if empty_token && self.case.opts.excl("clp_empty_token") {
            *self.w().h.excluded.entry("clp_empty_token").or_insert(0) += 1;
            return None;
        }
        let obs = self.guarded("SpanContext::current_local_parent", |_| SpanContext::current_local_parent())?;
        let mut w = self.w();
        let t = w.tick();
        let exp = if self.case.opts.disabled { None } else { exp };
        w.h.ctxs.push(MCtx {
            src: CtxSrc::Local { vt: self.id },
            exp,
            obs: obs.map(|c| (c.trace_id.0, c.span_id.0, c.sampled)),
            t,
            open_locals,
            multi_parent,
        });
        let ci = w.h.ctxs.len() - 1;
        if let Some(c) = obs {
            w.ctxs.push((c, ci));
        }
        Some(obs.map(|c| (c.trace_id.0, c.span_id.0, c.sampled)))
    }

    pub fn op_root_from_ctx(&mut self, ctx_sel: u16, via_tp: bool, s: StrSeed) {
        let (ctx, ci) = {
            let mut w = self.w();
            if w.ctxs.is_empty() {
                w.h.skipped_ops += 1;
                return;
            }
            let i = sel(ctx_sel, w.ctxs.len());
            w.ctxs[i]
        };
        let ctx2 = if via_tp {
            let r = self.guarded("traceparent round trip", |_| {
                SpanContext::decode_w3c_traceparent(&ctx.encode_w3c_traceparent())
            });
            match r {
                Some(Some(c)) => c,
                Some(None) => {
                    let mut w = self.w();
                    let t = w.tick();
                    let vt = self.id;
                    w.h.panics.push(PanicRec {
                        vt,
                        op: "traceparent round trip".into(),
                        msg: format!("decode(encode({:?})) returned None", ctx),
                        t,
                    });
                    return;
                }
                None => return,
            }
        } else {
            ctx
        };
        // the model's idea of what the context denotes
        let exp = self.w().h.ctxs[ci].exp.clone();
        let (trace, from, sampled) = match exp {
            Some(e) => (e.trace, Some(e.who), e.sampled),
            // the library returned a context where the model expects None: C11 reports it;
            // follow the observed values so that the run can continue
            None => (ctx.trace_id.0, None, ctx.sampled),
        };
        if let Some(idx) = self.op_root(trace, ctx.span_id.0, sampled, 0, s, from, Some(ctx2)) {
            let mut w = self.w();
            w.h.spans[idx].how = if via_tp { "remote_root_tp" } else { "remote_root" };
        }
    }

    pub fn op_elapsed(&mut self, span_sel: u16) {
        let Some(idx) = Self::pick_span(&mut self.w(), span_sel) else { return };
        let Some(span) = self.w().spans[idx].take() else { return };
        let b0 = self.now_always();
        let obs = self.guarded("Span::elapsed", |_| span.elapsed());
        let b1 = self.now_always();
        let mut w = self.w();
        w.tick();
        w.spans[idx] = Slot::Live(span);
        if let Some(obs) = obs {
            w.h.elapsed.push(ElapsedObs {
                span: idx,
                obs_ns: obs.map(|d| d.as_nanos() as u64),
                b0,
                b1,
            });
        }
    }

    pub fn op_spin(&mut self, us: u16) {
        let start = std::time::Instant::now();
        while start.elapsed() < std::time::Duration::from_micros(us as u64) {
            std::hint::spin_loop();
        }
    }

    pub fn op_flush(&mut self) {
        match self.case.opts.mode {
            Mode::Api => {
                let t0 = {
                    let mut w = self.w();
                    let t0 = w.tick();
                    let vt = self.id;
                    w.h.flushes.push(FlushReq {
                        vt,
                        t0,
                        t1: None,
                        batches_at_return: 0,
                    });
                    w.h.cycles.push(Cycle {
                        t0,
                        t1: None,
                        interleaved: 0,
                    });
                    t0
                };
                let _ = t0;
                let fi = self.w().h.flushes.len() - 1;
                let ci = self.w().h.cycles.len() - 1;
                self.guarded("fastrace::flush", |_| fastrace::flush());
                let mut w = self.w();
                let t1 = w.tick();
                w.h.cycles[ci].t1 = Some(t1);
                w.h.flushes[fi].t1 = Some(t1);
                w.h.flushes[fi].batches_at_return = w.h.batches.len();
            }
            Mode::Sched => {
                if self.reentrant_depth > 0 {
                    return;
                }
                {
                    let mut w = self.w();
                    let t0 = w.tick();
                    let vt = self.id;
                    w.h.flushes.push(FlushReq {
                        vt,
                        t0,
                        t1: None,
                        batches_at_return: 0,
                    });
                }
                self.case.baton.yield_now(self.id, Yield::WaitFlush);
                let mut w = self.w();
                let t1 = w.tick();
                let n = w.h.batches.len();
                let vt = self.id;
                if let Some(f) = w.h.flushes.iter_mut().rev().find(|f| f.vt == vt && f.t1.is_none()) {
                    f.t1 = Some(t1);
                    f.batches_at_return = n;
                }
            }
        }
    }

    pub fn op_probe(&mut self) {
        if self.case.opts.disabled {
            return;
        }
        let (span_name, event_name, ctx_ver, depth, kinds, empty_token) = {
            let mut w = self.w();
            w.tick();
            let u = w.uniq();
            let tag = w.tag.clone();
            let vt = self.id;
            let ver = *w.h.vts[vt].ctx_stack.last().unwrap();
            let depth = w.h.vts[vt].ctx_stack.len() - 1;
            let mut kinds = 0u8;
            for sc in &w.h.vts[vt].stack {
                kinds |= match w.h.scopes[*sc].kind {
                    ScopeKind::Parent { .. } => 1,
                    ScopeKind::Collector => 2,
                };
                if !w.h.scopes[*sc].open.is_empty() {
                    kinds |= 4;
                }
            }
            let (_, _, _, empty_token) = Self::expected_clp(&w, vt);
            (format!("probe~{}.{}", tag, u), format!("probe-ev~{}.{}", tag, u), ver, depth, kinds, empty_token)
        };
        let prop_key = format!("probe-k{}", &event_name["probe-ev".len()..]);
        let mut clp = None;
        let mut clp_panicked = false;
        if empty_token && self.case.opts.excl("clp_empty_token") {
            *self.w().h.excluded.entry("clp_empty_token").or_insert(0) += 1;
            clp_panicked = true; // not observed
        } else {
            match catch_unwind(|| SpanContext::current_local_parent()) {
                Ok(c) => clp = c.map(|c| (c.trace_id.0, c.span_id.0, c.sampled)),
                Err(p) => {
                    clp_panicked = true;
                    let msg = payload_str(&p);
                    let mut w = self.w();
                    let t = w.tick();
                    let vt = self.id;
                    w.h.panics.push(PanicRec {
                        vt,
                        op: "SpanContext::current_local_parent".into(),
                        msg,
                        t,
                    });
                }
            }
        }
        // probe span, finished at once
        let idx = self.child_of_local_named(span_name.clone(), "probe");
        let span_is_noop = match idx {
            Some(i) => {
                let noop = self.w().h.spans[i].noop;
                self.finish_idx(i);
                noop
            }
            None => true,
        };
        // every entry point for local events has to agree on where "here" is: alternate between
        // `LocalSpan::add_event` and the deprecated `Event::add_to_local_parent`
        if event_name.as_bytes()[event_name.len() - 1] % 2 == 1 {
            self.add_event_deprecated(None, event_name.clone(), vec![], &[]);
        } else {
            self.add_event_named(None, event_name.clone(), vec![], &[]);
        }
        self.add_props_with(None, vec![(prop_key.clone(), "v".to_string())], &[]);
        let mut w = self.w();
        let t = w.tick();
        let vt = self.id;
        w.h.probes.push(Probe {
            prop_key,
            vt,
            ctx_ver,
            t,
            clp,
            clp_panicked,
            span_name,
            span_is_noop,
            event_name,
            depth,
            kinds,
        });
    }

    fn child_of_local_named(&mut self, name: String, how: &'static str) -> Option<usize> {
        let t0 = self.w().tick();
        let c0 = self.now();
        let n2 = name.clone();
        let span = self.guarded("Span::enter_with_local_parent", |_| Span::enter_with_local_parent(n2))?;
        let mut ms = self.blank_span(name, how);
        {
            let w = self.w();
            match Self::local_token(&w, self.id) {
                Some(items) if !self.case.opts.disabled => ms.items = items,
                _ => ms.noop = true,
            }
        }
        Some(self.finish_span_creation(span, ms, vec![], false, "", t0, c0))
    }

    /// `n` more local records (sibling local spans, events or properties) in the current scope,
    /// staying well below the scope limit
    pub fn op_many(&mut self, n: u8, kind: u8) {
        let vt = self.id;
        let count = {
            let w = self.w();
            match Self::top_scope(&w, vt) {
                Some(sc) => w.h.scopes[sc].count,
                None => return,
            }
        };
        let target = (count + n as usize).min(10240 - 64);
        self.fill_scope(count, target, kind, "many");
    }

    pub fn op_burst(&mut self, n: u16, kind: u8) {
        // fill the current scope up to (limit - 25 + n) entries, then the generated ops continue
        let vt = self.id;
        let count = {
            let w = self.w();
            match Self::top_scope(&w, vt) {
                Some(sc) => w.h.scopes[sc].count,
                None => return,
            }
        };
        let target = 10240usize - 25 + n as usize;
        self.fill_scope(count, target, kind, "burst");
    }

    fn fill_scope(&mut self, count: usize, target: usize, kind: u8, label: &'static str) {
        let vt = self.id;
        if count >= target {
            return;
        }
        self.w().h.label(label);
        let bno = {
            let mut w = self.w();
            let u = w.uniq();
            format!("{}.{}", w.tag, u)
        };
        for i in count..target {
            match kind {
                0 => {
                    // sibling local spans
                    let name = format!("b{}~{}", i, bno);
                    let li = self.enter_local_named(name, vec![], "burst");
                    let _ = li;
                    self.op_pop_guard(true, false);
                }
                1 => self.add_event_named(None, format!("be{}~{}", i, bno), vec![], &[]),
                _ => {
                    let key = format!("bk{}~{}", i, bno);
                    self.guarded("LocalSpan::add_property", |_| LocalSpan::add_property(|| (key.clone(), "v")));
                    let mut w = self.w();
                    let t = w.tick();
                    if let Some((target, sc2)) = Self::local_attach_target(&mut w, vt) {
                        w.h.atts.push(MAtt {
                            kind: AKind::Props(vec![(key, "v".into())]),
                            target,
                            route: Route::Local,
                            vt,
                            t: (t, t),
                            scope: Some(sc2),
                            b0: 0,
                            b1: 0,
                        });
                    }
                }
            }
        }
    }

    pub fn op_churn(&mut self, k: u8) {
        if self.reentrant_depth > 0 {
            return;
        }
        self.w().h.label("churn");
        let r = self.guarded("LocalCollector churn", |_| {
            for _ in 0..(k as usize * 1000) {
                let c = LocalCollector::start();
                drop(c);
            }
        });
        let _ = r;
    }

    pub fn op_nest(&mut self, n: u16, span_sel: u16) {
        // nest scopes up to (4096 - 20 + n)
        let depth = self.w().h.vts[self.id].stack.len();
        let target = 4096usize - 20 + n as usize;
        if depth >= target {
            return;
        }
        let Some(idx) = Self::pick_span(&mut self.w(), span_sel) else { return };
        if self.w().h.spans[idx].noop {
            return;
        }
        self.w().h.label("nest");
        for i in depth..target {
            if i % 7 == 3 {
                self.op_collector_start(false);
            } else {
                self.set_local_parent_of(idx, None);
            }
        }
    }

    #[cfg(fastrace_verif)]
    pub fn op_fill(&mut self, leave: u8) {
        // Fault injection: fill this thread's command ring until exactly `leave` slots are free.
        // The filler commands are submits of events under a child of an already committed root,
        // so they leave no state in the collector and produce no records.
        if self.reentrant_depth > 0 {
            return;
        }
        self.w().h.label("fill");
        let u = self.w().uniq();
        let Some(idx) = self.op_root(tid(1, 0xF111_0000 + u as u64, u), 0, true, 0, StrSeed { c: 0, l: 2 }, None, None) else {
            return;
        };
        {
            let mut w = self.w();
            if let Some(c) = w.h.spans[idx].cid {
                w.fill_cids.push(c);
            }
        }
        let Some(root) = self.w().spans[idx].take() else { return };
        let child = Span::enter_with_parent("fill-child", &root);
        self.w().spans[idx] = Slot::Live(root);
        self.finish_idx(idx);
        NO_YIELD.with(|n| n.set(true));
        let mut pushed = 0u64;
        loop {
            LAST_FREE.with(|f| f.set(usize::MAX));
            child.add_event(Event::new("f"));
            pushed += 1;
            let fb = LAST_FREE.with(|f| f.get());
            if fb == usize::MAX || fb <= leave as usize + 1 || pushed > 20_000 {
                break;
            }
        }
        NO_YIELD.with(|n| n.set(false));
        std::mem::forget(child);
        let mut w = self.w();
        let t = w.tick();
        w.h.fill_cmds += pushed;
        let vt = self.id;
        w.h.hooks.push(HookEv {
            t,
            vt: Some(vt),
            kind: HookKind::Command {
                kind: "fill-done",
                ids: vec![pushed as usize, leave as usize],
                force: false,
            },
        });
    }

    #[cfg(not(fastrace_verif))]
    pub fn op_fill(&mut self, _leave: u8) {}

    /// a backlog of n cheap commands (events under a child of an already committed root)
    pub fn op_bulk(&mut self, n: u16) {
        if self.reentrant_depth > 0 {
            return;
        }
        // all Bulk operations of a vthread together stay well below the ring capacity, so that a
        // backlog never turns into an overload episode (that is Fill's job)
        let n = (n as usize).min(9000usize.saturating_sub(self.bulk_used));
        if n == 0 {
            return;
        }
        self.bulk_used += n;
        self.w().h.label("bulk");
        let u = self.w().uniq();
        let Some(idx) = self.op_root(tid(1, 0xB111_0000 + u as u64, u), 0, true, 0, StrSeed { c: 0, l: 2 }, None, None) else {
            return;
        };
        {
            let mut w = self.w();
            if let Some(c) = w.h.spans[idx].cid {
                w.fill_cids.push(c);
            }
        }
        let Some(root) = self.w().spans[idx].take() else { return };
        let child = Span::enter_with_parent("fill-child", &root);
        self.w().spans[idx] = Slot::Live(root);
        self.finish_idx(idx);
        {
            let mut w = self.w();
            let t = w.tick();
            w.h.bulk_atts.push((idx, n, t));
        }
        NO_YIELD.with(|x| x.set(true));
        for _ in 0..n {
            LAST_FREE.with(|f| f.set(usize::MAX));
            child.add_event(Event::new("f"));
            // never fill the ring: leave at least 64 slots
            let fb = LAST_FREE.with(|f| f.get());
            if fb != usize::MAX && fb < 64 {
                break;
            }
        }
        NO_YIELD.with(|x| x.set(false));
        std::mem::forget(child);
        self.w().tick();
    }

    pub fn op_volley(&mut self, n: u16) {
        if self.reentrant_depth > 0 {
            return;
        }
        self.w().h.label("volley");
        // a very long volley runs without yield points (and without per-command log entries)
        let quiet = n > 1000;
        if quiet {
            self.w().h.label("volley_over_ring_capacity");
            NO_YIELD.with(|x| x.set(true));
        }
        let _reset = QuietReset(quiet);
        // an ordinary volley shares the vthread's backlog budget with Bulk (three commands per
        // trace), so that backlogs alone never fill the ring; volleys beyond the ring's capacity
        // are overload episodes on purpose
        let n = if quiet {
            n as usize
        } else {
            let room = 9800usize.saturating_sub(self.bulk_used) / 3;
            let n = (n as usize).min(room);
            self.bulk_used += 3 * n;
            n
        };
        for _ in 0..n {
            let u = self.w().uniq();
            if let Some(idx) = self.op_root(tid(1, 0x7011_0000 + u as u64, u), 0, true, 0, StrSeed { c: 0, l: 2 }, None, None) {
                self.finish_idx(idx);
            }
        }
    }

    /// the text decoders are entry points of a host too (an incoming request header): whatever
    /// the text is, they return
    pub fn op_decode_text(&mut self, kind: u8, at: u8, width: u8) {
        use std::str::FromStr;
        let u = self.w().uniq() as u128;
        let canon = SpanContext::new(TraceId(0x0af7_6519_16cd_43dd_8448_eb21_1c80_319c ^ u), SpanId(0xb7ad_6b71_6920_3331 ^ u as u64)).encode_w3c_traceparent();
        let at = (at as usize).min(canon.len());
        let ch = match width {
            1 => "g",
            2 => "é",
            3 => "中",
            _ => "😀",
        };
        let text = match kind {
            0 => canon.clone(),
            1 => {
                let end = (at + ch.len()).min(canon.len());
                format!("{}{}{}", &canon[..at], ch, &canon[end..])
            }
            2 => canon[..at].to_string(),
            _ => format!("{}{}{}", &canon[..at], ch, &canon[at..]),
        };
        self.w().h.label("decode_text");
        let t2 = text.clone();
        self.guarded("SpanContext::decode_w3c_traceparent", move |_| {
            let _ = SpanContext::decode_w3c_traceparent(&t2);
        });
        let t3 = text.clone();
        self.guarded("TraceId::from_str / SpanId::from_str", move |_| {
            let _ = TraceId::from_str(&t3);
            let _ = SpanId::from_str(&t3);
            let _ = TraceId::from_str(t3.get(3..35).unwrap_or(""));
            let _ = SpanId::from_str(t3.get(36..52).unwrap_or(""));
        });
    }

    pub fn op_trace_fn(&mut self, kind: u8) {
        self.w().h.label("trace_fn");
        match kind % 4 {
            0 => {
                self.guarded("#[trace] fn", |_| traced_sync(3));
            }
            1 => {
                let before = DEBUG_CALLS.load(Ordering::SeqCst);
                self.guarded("#[trace(properties)] fn", |_| traced_props(CountingDebug(5)));
                let after = DEBUG_CALLS.load(Ordering::SeqCst);
                let recording = {
                    let w = self.w();
                    match Self::top_scope(&w, self.id) {
                        Some(sc) => w.h.scopes[sc].sampled_any && !self.case.opts.disabled,
                        None => false,
                    }
                };
                self.mk_props_closure_log("#[trace(properties)]", recording, after != before);
            }
            2 => {
                self.guarded("#[trace] async fn", |_| {
                    let mut f = Box::pin(traced_async(1));
                    let w = noop_waker();
                    let mut cx = std::task::Context::from_waker(&w);
                    let _ = std::future::Future::poll(f.as_mut(), &mut cx);
                });
            }
            _ => {
                self.guarded("#[trace(enter_on_poll)] async fn", |_| {
                    let mut f = Box::pin(traced_async_eop(1));
                    let w = noop_waker();
                    let mut cx = std::task::Context::from_waker(&w);
                    let _ = std::future::Future::poll(f.as_mut(), &mut cx);
                });
            }
        }
        // sync #[trace] functions record one local span in the model's scope count
        let mut w = self.w();
        let vt = self.id;
        if let Some(sc) = Self::top_scope(&w, vt) {
            if w.h.scopes[sc].sampled_any && w.h.scopes[sc].count < 10240 && kind % 4 != 2 {
                w.h.scopes[sc].count += 1;
            }
        }
    }

    pub fn run_mini(&mut self, minis: &[Mini], poll: Option<(usize, usize)>) {
        for m in minis {
            match m {
                Mini::EnterLocal { s } => self.op_enter_local(0, *s, false, "mini"),
                Mini::ExitLocal => {
                    if self.guards.len() > self.floor {
                        if let Some(Guard::Local(_, _)) = self.guards.last() {
                            self.op_pop_guard(true, false);
                        }
                    }
                }
                Mini::LocalEvent { s } => self.op_add_event(None, 1, *s, &[]),
                Mini::LocalProp { s } => self.op_add_props(None, 1, *s, &[]),
                Mini::ChildOfLocal { s, keep } => {
                    if let Some(i) = self.op_child_of_local(0, *s, "mini_child") {
                        if !*keep {
                            self.finish_idx(i);
                        } else if poll.is_some() {
                            // held by the polled future/stream/sink across its suspension point;
                            // finished when that object is dropped (unless finished before)
                            self.kept_in_poll.push(i);
                        }
                    }
                }
                Mini::CtxOfLocal => {
                    let r = self.op_ctx_of_local();
                    if let (Some((a, p)), Some(r)) = (poll, r) {
                        let mut w = self.w();
                        if let Some(pl) = w.h.adapters[a].polls.get_mut(p) {
                            pl.inside_clp.push(r);
                        }
                    }
                }
                Mini::TraceFn => self.op_trace_fn(0),
                Mini::RootAndDrop { s } => {
                    let u = self.w().uniq();
                    if let Some(i) = self.op_root(tid(1, u as u64, u), 0, true, 0, *s, None, None) {
                        self.finish_idx(i);
                    }
                }
                Mini::Flush => self.op_flush(),
                Mini::PollNested { a } => adapters::drive(self, *a, Entry::Poll, true),
                Mini::Probe => self.op_probe(),
            }
        }
    }

    pub fn exec(&mut self, op: &Op) -> bool {
        {
            let mut w = self.w();
            w.h.executed_ops += 1;
            let d = std::mem::discriminant(op);
            let x = {
                use std::hash::{Hash, Hasher};
                let mut hs = std::collections::hash_map::DefaultHasher::new();
                d.hash(&mut hs);
                self.id.hash(&mut hs);
                hs.finish()
            };
            w.h.mix(x);
        }
        match op {
            Op::Root { tc, tr, pc, pr, sampled, np, s } => {
                let trace = {
                    let mut w = self.w();
                    let u = w.uniq();
                    let mut t = tid(*tc, *tr, u);
                    if w.used_traces.contains(&t) && self.case.prog_unique_traces() {
                        t = tid(1, *tr ^ ((u as u64) << 20) ^ 0x9e37_79b9_7f4a_7c15, u);
                    }
                    w.used_traces.push(t);
                    t
                };
                self.op_root(trace, pid(*pc, *pr), *sampled, *np, *s, None, None);
            }
            Op::Child { parents, np, s } => {
                self.op_child(parents, *np, *s);
            }
            Op::Noop => self.op_noop(),
            Op::ChildOfLocal { np, s } => {
                self.op_child_of_local(*np, *s, "child_of_local");
            }
            Op::SetLocalParent { span, probe } => self.op_set_local_parent(*span, *probe),
            Op::EnterLocal { np, s, probe, re } => self.op_enter_local_re(*np, *s, *probe, "op", re),
            Op::CollectorStart { probe } => self.op_collector_start(*probe),
            Op::PopGuard { collect, early, unwind } => {
                let had = self.guards.len() > self.floor;
                self.unwind_next_pop = *unwind;
                self.op_pop_guard(*collect, *early);
                self.unwind_next_pop = false;
                if had && self.case.prog_probes() {
                    self.op_probe();
                }
            }
            Op::PushChildSpans { span, set, last } => self.op_push_child_spans(*span, *set, *last),
            Op::ToSpanRecords { set, tc, tr, pr } => self.op_to_span_records(*set, *tc, *tr, *pr),
            Op::AddProps { handle, n, s, re } => self.op_add_props(*handle, *n, *s, re),
            Op::AddEvent { handle, n, s, re } => self.op_add_event(*handle, *n, *s, re),
            Op::Finish { span } => self.op_finish(*span),
            Op::Cancel { span } => self.op_cancel(*span),
            Op::CtxOfSpan { span } => self.op_ctx_of_span(*span),
            Op::CtxOfLocal => {
                self.op_ctx_of_local();
            }
            Op::RootFromCtx { ctx, via_tp, s } => self.op_root_from_ctx(*ctx, *via_tp, *s),
            Op::Elapsed { span } => self.op_elapsed(*span),
            Op::Spin { us } => self.op_spin(*us),
            Op::Flush => self.op_flush(),
            Op::Probe => self.op_probe(),
            Op::Wrap { kind, span, s, script } => adapters::wrap(self, *kind, *span, *s, script),
            Op::Drive { a, entry } => adapters::drive(self, *a, *entry, false),
            Op::DropAdapter { a } => adapters::drop_adapter(self, *a),
            Op::Fill { leave } => self.op_fill(*leave),
            Op::Bulk { n } => self.op_bulk(*n),
            Op::Volley { n } => self.op_volley(*n),
            Op::Many { n, kind } => self.op_many(*n, *kind),
            Op::Burst { n, kind } => self.op_burst(*n, *kind),
            Op::Nest { n, span } => self.op_nest(*n, *span),
            Op::Churn { k } => self.op_churn(*k),
            Op::Exit => return false,
            Op::TraceFn { kind } => self.op_trace_fn(*kind),
            Op::DecodeText { kind, at, width } => self.op_decode_text(*kind, *at, *width),
            Op::WhilePanicking { inner } => {
                if std::thread::panicking() || self.reentrant_depth > 0 || matches!(**inner, Op::WhilePanicking { .. } | Op::Exit | Op::Flush) {
                    return self.exec(inner);
                }
                self.w().h.label("op_while_thread_is_panicking");
                struct Deliberate;
                struct OnDrop<F: FnMut()>(F);
                impl<F: FnMut()> Drop for OnDrop<F> {
                    fn drop(&mut self) {
                        (self.0)()
                    }
                }
                let mut cont = true;
                let me: *mut VtCtx = self;
                let _ = catch_unwind(AssertUnwindSafe(|| {
                    // SAFETY: `self` is not used by anybody else while the closure runs
                    let _d = OnDrop(|| cont = unsafe { &mut *me }.exec(inner));
                    std::panic::resume_unwind(Box::new(Deliberate));
                }));
                return cont;
            }
        }
        true
    }
}

impl Case {
    fn prog_unique_traces(&self) -> bool {
        self.opts.unique_traces
    }
    fn prog_probes(&self) -> bool {
        self.opts.auto_probe
    }
}

// ---------------------------------------------------------------------------------------------
// Scheduler
// ---------------------------------------------------------------------------------------------

#[derive(Clone, Copy, PartialEq, Debug)]
enum VtState {
    Runnable,
    WaitFlush,
    /// blocked on the receiver registry's lock until the cycle in progress ends
    WaitRegistry,
    Exited,
}

pub static INSTALLED: Mutex<Option<bool>> = Mutex::new(None);
/// which spelling of the configuration this process uses (set from the worker number)
pub static CONFIG_ROUTE: std::sync::atomic::AtomicU8 = std::sync::atomic::AtomicU8::new(0);

/// Install the reporter for the api engine (at most once per configuration per process).
pub fn ensure_reporter_api(cancelable: bool) {
    let mut g = INSTALLED.lock().unwrap();
    if *g == Some(cancelable) {
        return;
    }
    // a process may install its reporter more than once, with another configuration each time:
    // on the odd routes the first installation of the process is preceded by one with the
    // opposite setting (what counts is the configuration installed last)
    if g.is_none() && CONFIG_ROUTE.load(Ordering::SeqCst) % 2 == 1 {
        let before = REPORT_CALLS.load(Ordering::SeqCst);
        fastrace::set_reporter(SinkReporter, Config::default().report_interval(std::time::Duration::from_secs(3600)).cancelable(!cancelable));
        if cfg!(feature = "enable") {
            let start = std::time::Instant::now();
            while REPORT_CALLS.load(Ordering::SeqCst) == before && start.elapsed() < std::time::Duration::from_secs(20) {
                std::thread::sleep(std::time::Duration::from_micros(200));
            }
        }
        fastrace::flush();
    }
    let before = REPORT_CALLS.load(Ordering::SeqCst);
    // the configuration is built along every route the API offers: `cancelable()` or its
    // deprecated spelling, with or without the deprecated (documented as no-op) span limit, options
    // in either order; which one depends on the worker, so every route is used in every run
    #[allow(deprecated)]
    let cfg = match CONFIG_ROUTE.load(Ordering::SeqCst) % 4 {
        0 => Config::default().report_interval(std::time::Duration::from_secs(3600)).cancelable(cancelable),
        1 => Config::default().report_before_root_finish(cancelable).report_interval(std::time::Duration::from_secs(3600)),
        2 => Config::default().cancelable(!cancelable).max_spans_per_trace(Some(2)).report_interval(std::time::Duration::from_secs(3600)).cancelable(cancelable),
        _ => Config::default().max_spans_per_trace(None).report_interval(std::time::Duration::from_secs(1)).report_interval(std::time::Duration::from_secs(3600)).report_before_root_finish(!cancelable).cancelable(cancelable),
    };
    fastrace::set_reporter(SinkReporter, cfg);
    if cfg!(feature = "enable") {
        // wait for the background thread's initial (empty) report
        let start = std::time::Instant::now();
        while REPORT_CALLS.load(Ordering::SeqCst) == before {
            if start.elapsed() > std::time::Duration::from_secs(20) {
                panic!("harness: background collector thread did not start");
            }
            std::thread::sleep(std::time::Duration::from_micros(200));
        }
    }
    ORPHANS.lock().unwrap().clear();
    *g = Some(cancelable);
}

/// the process-wide ThreadId counter, read by spawning a probe thread
fn thread_id_probe() -> u64 {
    std::thread::spawn(|| {
        let s = format!("{:?}", std::thread::current().id());
        s.trim_start_matches("ThreadId(").trim_end_matches(')').parse::<u64>().unwrap_or(0)
    })
    .join()
    .unwrap_or(0)
}

pub fn run_case(prog: &Program, opts: &ExecOpts) -> Hist {
    let probe0 = if opts.disabled { thread_id_probe() } else { 0 };
    let mut h = run_case_inner(prog, opts);
    if opts.disabled {
        let probe1 = thread_id_probe();
        // ids handed out between the two probes (the second probe itself excluded)
        h.thread_ids_used = probe1.saturating_sub(probe0).saturating_sub(1);
        h.threads_spawned_by_harness = prog.threads.len() as u64 + 2;
    }
    h
}

fn run_case_inner(prog: &Program, opts: &ExecOpts) -> Hist {
    let case_no = CASE_NO.fetch_add(1, Ordering::SeqCst);
    let n = prog.threads.len();
    let reaper = n;
    let collector = n + 1;
    let mut h = Hist::default();
    h.cancelable = prog.cancelable;
    h.wall_start_ns = wall_ns();
    for _ in 0..n + 2 {
        h.vts.push(VtInfo {
            born_t: None,
            exit_t: None,
            ops_done: 0,
            stack: vec![],
            ctx_stack: vec![],
        });
    }
    for (i, v) in h.vts.iter_mut().enumerate() {
        v.ctx_stack.push(1_000_000 + i as u64);
    }
    let world = World {
        t: 0,
        tag: format!("{}x{}", std::process::id(), case_no),
        uniq: 0,
        spans: vec![],
        sets: vec![],
        ctxs: vec![],
        adapters: vec![],
        h,
        case_start: fastant::Instant::now(),
        used_traces: vec![],
        ctx_ver: 0,
        collector_stop: false,
        closure_hits: 0,
        fill_cids: vec![],
        drain_ring: 0,
        quiet_empty_batches: false,
    };
    let case = Arc::new(Case {
        prog: prog.clone(),
        opts: opts.clone(),
        baton: Baton::new(),
        w: Mutex::new(world),
    });

    match opts.mode {
        Mode::Api => {
            if opts.reporter_ready {
                ensure_reporter_api(prog.cancelable);
            }
        }
        Mode::Sched => {
            #[cfg(fastrace_verif)]
            {
                fastrace::verif::install_collector(SinkReporter, Config::default().cancelable(prog.cancelable));
                fastrace::verif::set_hook(Some(hook));
            }
            #[cfg(not(fastrace_verif))]
            panic!("sched mode needs the hooked build");
        }
    }
    *CURRENT.lock().unwrap() = Some(case.clone());

    // the pool: plain OS threads outside the baton that each make one tracing call (their command
    // queue gets registered) and then sleep until the case is over. Their records are named
    // "fill-pool" and ignored by the oracles.
    let pool_release = Arc::new(std::sync::atomic::AtomicBool::new(false));
    let mut pool_handles = vec![];
    if opts.mode == Mode::Api && prog.pool > 0 && !opts.disabled {
        case.w().h.label("pool_of_registered_threads");
        let ready = Arc::new(std::sync::atomic::AtomicUsize::new(0));
        for k in 0..prog.pool {
            let rel = pool_release.clone();
            let rdy = ready.clone();
            let tid = (0xF1u128 << 120) | ((case_no as u128) << 16) | k as u128;
            pool_handles.push(
                std::thread::Builder::new()
                    .name(format!("vt-pool{}", k))
                    .stack_size(64 * 1024)
                    .spawn(move || {
                        drop(Span::root("fill-pool", SpanContext::new(TraceId(tid), SpanId(0))));
                        rdy.fetch_add(1, Ordering::SeqCst);
                        while !rel.load(Ordering::SeqCst) {
                            std::thread::park_timeout(std::time::Duration::from_millis(50));
                        }
                    })
                    .expect("spawn pool"),
            );
        }
        while ready.load(Ordering::SeqCst) < prog.pool as usize {
            std::thread::yield_now();
        }
    }

    // vthreads are spawned lazily, when first scheduled: a vthread that is born after another one
    // exited really is a new OS thread started after the old one ended (stack and thread-local
    // storage may be reused by the OS, as in programs with short-lived worker threads)
    let mut handles: Vec<Option<std::thread::JoinHandle<()>>> = (0..n + 2).map(|_| None).collect();
    let mut spawned = vec![false; n + 2];
    let spawn_vt = |id: usize| -> std::thread::JoinHandle<()> {
        let case2 = case.clone();
        std::thread::Builder::new()
            .name(format!("vt{}", id))
            .spawn(move || vt_main(case2, id, n))
            .expect("spawn")
    };

    // scheduler loop
    let mut state = vec![VtState::Runnable; n + 2];
    let mut born = vec![false; n + 2];
    born[collector] = true;
    let mut in_cycle = false;
    let mut cycles_left = prog.cycles as usize;
    let mut seg = 0usize;
    let sched_mode = opts.mode == Mode::Sched;

    let progs_exited = |state: &Vec<VtState>| (0..n).all(|i| state[i] == VtState::Exited);

    loop {
        let waiters = state.iter().filter(|s| **s == VtState::WaitFlush).count();
        let mut en: Vec<usize> = Vec::new();
        let lazy = sched_mode && prog.lazy_reg;
        for i in 0..n {
            if state[i] == VtState::Runnable && (born[i] || !in_cycle || lazy) {
                en.push(i);
            }
        }
        if progs_exited(&state) && state[reaper] == VtState::Runnable && (born[reaper] || !in_cycle) {
            en.push(reaper);
        }
        let all_done = progs_exited(&state) && state[reaper] == VtState::Exited;
        if state[collector] == VtState::Runnable && (cycles_left > 0 || waiters > 0 || in_cycle) && !all_done {
            en.push(collector);
        }
        if all_done && !in_cycle {
            break;
        }
        if en.is_empty() {
            if all_done && in_cycle {
                en.push(collector);
            } else {
                panic!(
                    "harness: scheduler deadlock state={:?} in_cycle={} waiters={}",
                    state, in_cycle, waiters
                );
            }
        }
        let (vt, len) = if seg < prog.schedule.len() {
            let (c, l) = prog.schedule[seg];
            seg += 1;
            (en[(c as usize * en.len()) >> 8], l as usize)
        } else {
            (en[0], usize::MAX)
        };
        let mut steps = 0usize;
        while steps < len {
            steps += 1;
            if !born[vt] {
                if in_cycle && !(lazy && vt < n) {
                    break;
                }
                born[vt] = true;
            }
            if !spawned[vt] {
                spawned[vt] = true;
                handles[vt] = Some(spawn_vt(vt));
            }
            let y = case.baton.run(vt);
            {
                let mut w = case.w();
                w.h.mix(vt as u64 * 31 + 7);
                if vt != collector && in_cycle {
                    if let Some(c) = w.h.cycles.last_mut() {
                        c.interleaved += 1;
                    }
                }
            }
            match y {
                Yield::OpDone => {
                    if vt == collector {
                        in_cycle = false;
                        // the drain is over and the registry unlocked: the vthreads that were
                        // blocked on it register now and stop at their next yield point
                        case.baton.wait_detached_parked();
                        for st in state.iter_mut() {
                            if *st == VtState::WaitRegistry {
                                *st = VtState::Runnable;
                            }
                        }
                        cycles_left = cycles_left.saturating_sub(1);
                        // wake flush waiters whose request precedes the start of this cycle
                        let w = case.w();
                        let c0 = w.h.cycles.last().map(|c| c.t0).unwrap_or(0);
                        for i in 0..n + 1 {
                            if state[i] == VtState::WaitFlush {
                                let req = w.h.flushes.iter().rev().find(|f| f.vt == i && f.t1.is_none());
                                if let Some(r) = req {
                                    if r.t0 < c0 {
                                        state[i] = VtState::Runnable;
                                    }
                                }
                            }
                        }
                        drop(w);
                        if sched_mode && opts.stats {
                            sample_stats(&case, false);
                        }
                        break;
                    }
                }
                Yield::Site(_) => {
                    if vt == collector {
                        in_cycle = true;
                    }
                }
                Yield::WaitFlush => {
                    state[vt] = VtState::WaitFlush;
                    break;
                }
                Yield::BlockedOnRegistry => {
                    assert!(in_cycle, "harness: the registry was locked outside of a collector cycle");
                    state[vt] = VtState::WaitRegistry;
                    break;
                }
                Yield::Exiting => {
                    let t0 = case.w().tick();
                    handles[vt].take().unwrap().join().expect("vthread panicked");
                    let t1 = case.w().tick();
                    case.w().h.vts[vt].exit_t = Some((t0, t1));
                    state[vt] = VtState::Exited;
                    break;
                }
            }
            // stop the segment if the vthread is no longer schedulable at this point
            if vt == collector && !in_cycle {
                break;
            }
        }
    }
    // stop the collector vthread
    case.w().collector_stop = true;
    if state[collector] != VtState::Exited {
        if !spawned[collector] {
            spawned[collector] = true;
            handles[collector] = Some(spawn_vt(collector));
        }
        let y = case.baton.run(collector);
        assert_eq!(y, Yield::Exiting, "collector did not stop");
        handles[collector].take().unwrap().join().expect("collector panicked");
    }
    pool_release.store(true, Ordering::SeqCst);
    for h in pool_handles {
        h.thread().unpark();
        let _ = h.join();
    }
    // final cycles on the scheduler thread
    for k in 0..2 {
        {
            let mut w = case.w();
            let t0 = w.tick();
            w.h.cycles.push(Cycle {
                t0,
                t1: None,
                interleaved: 0,
            });
        }
        let r = catch_unwind(AssertUnwindSafe(|| match opts.mode {
            Mode::Api => fastrace::flush(),
            Mode::Sched => {
                #[cfg(fastrace_verif)]
                fastrace::verif::run_collector_cycle();
            }
        }));
        let mut w = case.w();
        let t1 = w.tick();
        if let Err(p) = r {
            // a collector cycle that panics (flush() hands the panic on to its caller)
            let msg = payload_str(&p);
            w.h.panics.push(PanicRec { vt: usize::MAX, op: "collector cycle (flush)".to_string(), msg, t: t1 });
        }
        w.h.cycles.last_mut().unwrap().t1 = Some(t1);
        drop(w);
        if sched_mode && opts.stats {
            sample_stats(&case, k == 0);
        }
    }
    #[cfg(fastrace_verif)]
    if sched_mode {
        fastrace::verif::set_hook(None);
    }
    *CURRENT.lock().unwrap() = None;
    let mut w = case.w();
    w.h.wall_end_ns = wall_ns();
    w.h.orphan_records = std::mem::take(&mut *ORPHANS.lock().unwrap());
    // drop leftover real objects on this thread would call into the library: there are none by
    // construction (the reaper finished every span); adapters are dropped by the reaper too.
    std::mem::take(&mut w.h)
}

fn sample_stats(case: &Arc<Case>, final_: bool) {
    #[cfg(fastrace_verif)]
    {
        let s = fastrace::verif::collector_stats();
        let mut w = case.w();
        let t = w.tick();
        w.h.stats.push(StatSample {
            t,
            s: Stats {
                active_collectors: s.active_collectors,
                buffered_span_sets: s.buffered_span_sets,
                danglings: s.danglings,
                registered_receivers: s.registered_receivers,
            },
            live_units: 0,
            live_vts: 0,
            final_,
        });
    }
    #[cfg(not(fastrace_verif))]
    {
        let _ = (case, final_);
    }
}

fn vt_main(case: Arc<Case>, id: usize, n: usize) {
    let reaper = n;
    let collector = n + 1;
    VT.with(|v| *v.borrow_mut() = Some((case.clone(), id)));
    case.baton.wait_turn(id);
    if id == collector {
        collector_main(&case, id);
    } else {
        {
            let mut w = case.w();
            let t = w.tick();
            w.h.vts[id].born_t = Some(t);
        }
        #[cfg(fastrace_verif)]
        if case.opts.mode == Mode::Sched && !case.prog.lazy_reg {
            fastrace::verif::touch_sender();
        }
        let mut cx = VtCtx {
            case: case.clone(),
            id,
            guards: vec![],
            floor: 0,
            reentrant_depth: 0,
            bulk_used: 0,
            unwind_next_pop: false,
            event_early: false,
            kept_in_poll: vec![],
            skip_marks: vec![],
        };
        if id == reaper {
            reaper_main(&mut cx);
        } else {
            let ops = case.prog.threads[id].clone();
            for op in &ops {
                let cont = cx.exec(op);
                case.w().h.vts[id].ops_done += 1;
                if !cont {
                    break;
                }
                case.baton.yield_now(id, Yield::OpDone);
            }
            // normaliser: pop remaining guards, one operation each
            while !cx.guards.is_empty() {
                cx.op_pop_guard(true, false);
                case.baton.yield_now(id, Yield::OpDone);
            }
        }
    }
    VT.with(|v| *v.borrow_mut() = None);
    case.baton.exit(id);
}

fn reaper_main(cx: &mut VtCtx) {
    // drop adapters first (they own spans), then finish remaining spans in reverse creation order
    loop {
        let next = {
            let w = cx.w();
            (0..w.adapters.len()).rev().find(|i| w.adapters[*i].is_live())
        };
        match next {
            Some(a) => {
                adapters::drop_adapter_idx(cx, a);
                cx.case.baton.yield_now(cx.id, Yield::OpDone);
            }
            None => break,
        }
    }
    loop {
        let next = {
            let w = cx.w();
            (0..w.spans.len()).rev().find(|i| w.spans[*i].is_live())
        };
        match next {
            Some(i) => {
                cx.finish_idx(i);
                cx.case.baton.yield_now(cx.id, Yield::OpDone);
            }
            None => break,
        }
    }
}

fn collector_main(case: &Arc<Case>, id: usize) {
    IS_COLLECTOR.with(|c| c.set(true));
    loop {
        if case.w().collector_stop {
            break;
        }
        let ci = {
            let mut w = case.w();
            let t0 = w.tick();
            w.h.cycles.push(Cycle {
                t0,
                t1: None,
                interleaved: 0,
            });
            w.h.cycles.len() - 1
        };
        let r = catch_unwind(AssertUnwindSafe(|| match case.opts.mode {
            Mode::Api => fastrace::flush(),
            Mode::Sched => {
                #[cfg(fastrace_verif)]
                fastrace::verif::run_collector_cycle();
            }
        }));
        {
            let mut w = case.w();
            let t1 = w.tick();
            if let Err(p) = r {
                let msg = payload_str(&p);
                w.h.panics.push(PanicRec { vt: id, op: "collector cycle (flush)".to_string(), msg, t: t1 });
            }
            w.h.cycles[ci].t1 = Some(t1);
        }
        // a collector that keeps cycling while nothing happens (short report interval, many
        // flush() calls): `idle_cycles` further cycles directly behind this one. Together with it
        // they form one composite cycle of the history; their empty reports are only counted.
        let idle = case.prog.idle_cycles;
        if idle > 0 {
            {
                let mut w = case.w();
                w.quiet_empty_batches = true;
                w.h.label("idle_cycles_behind_a_cycle");
            }
            for _ in 0..idle {
                match case.opts.mode {
                    Mode::Api => fastrace::flush(),
                    Mode::Sched => {
                        #[cfg(fastrace_verif)]
                        {
                            LOG_ONLY.with(|n| n.set(true));
                            fastrace::verif::run_collector_cycle();
                            LOG_ONLY.with(|n| n.set(false));
                        }
                    }
                }
            }
            let mut w = case.w();
            w.quiet_empty_batches = false;
            let t1 = w.tick();
            w.h.cycles[ci].t1 = Some(t1);
        }
        case.baton.yield_now(id, Yield::OpDone);
    }
}

#!/usr/bin/env bash
# Offline setup: build the merged cargo directory source from the image's registry caches,
# then pre-build the engines from /repo's current tree. Idempotent.
set -euo pipefail
cd /verif
export CARGO_NET_OFFLINE=true
python3 tools/mkvendor.py /verif/vendor
[ -f engines/Cargo.lock ] || cp /repo/Cargo.lock engines/Cargo.lock
python3 /verif/check --build-only

#![no_main]
use libfuzzer_sys::fuzz_target;

// C12: the semantic oracle (independent reference parser, round trips, no panic) runs inside the
// target; any violation aborts with the message, and the input is the reproducible unit.
fuzz_target!(|data: &[u8]| {
    let text = String::from_utf8_lossy(data);
    let mut v = fr_codec::check_text(&text);
    if data.len() >= 25 {
        let t = u128::from_le_bytes(data[0..16].try_into().unwrap());
        let s = u64::from_le_bytes(data[16..24].try_into().unwrap());
        v.extend(fr_codec::check_context(t, s, data[24] & 1 == 1));
        v.extend(fr_codec::check_ids(t, s));
    }
    if !v.is_empty() {
        panic!("C12 violation: {:?}", v);
    }
});

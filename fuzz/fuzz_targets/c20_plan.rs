#![no_main]
use libfuzzer_sys::fuzz_target;
use std::sync::OnceLock;

// C20: bytes -> size plan -> real JaegerReporter -> loopback UDP -> independent decoder + oracle.
// State that outlives an iteration: only the listening socket (drained per case up to a sentinel).
static UDP: OnceLock<fr_reporters::UdpSink> = OnceLock::new();

fuzz_target!(|data: &[u8]| {
    let udp = UDP.get_or_init(fr_reporters::UdpSink::new);
    match fr_reporters::fuzz_one(udp, data) {
        fr_reporters::Outcome::Viols(v) if !v.is_empty() => panic!("C20 violation: {:?}", v.iter().map(|x| (&x.sig, &x.msg)).collect::<Vec<_>>()),
        _ => {}
    }
});

#![no_main]
use libfuzzer_sys::fuzz_target;

// Coverage-guided search over (program, schedule) for the schedule-level properties
// C01 / C03 / C04 / C08 (hooked build: RUSTFLAGS="--cfg fastrace_verif"). The oracles run inside
// the target (fr_core::fuzzdec::check_bytes); signatures of known findings are tolerated there so
// that the campaign goes on behind them. The saved input is the reproducible unit.
fuzz_target!(|data: &[u8]| {
    let (_prog, _h, v) = fr_core::fuzzdec::check_bytes(data);
    if !v.is_empty() {
        panic!("violation {}: {} ({})", v[0].prop, v[0].sig, v[0].msg);
    }
});
